//! E5 — hostile datagrams (C09): random bytes, mutated valid datagrams and structure-aware op
//! streams, delivered in sequences of up to 20 to nodes taken from E1 traces, with panic capture
//! and the C04 / C12 invariants checked after every datagram.

use std::collections::BTreeMap;
use std::sync::Arc;
use std::time::Duration;

use chitchat::{Chitchat, ChitchatId, ChitchatMessage, Deserializable, Serializable};
use rand::prelude::*;
use serde_json::{json, Value};

use crate::codec::{self, BlockPlan, WDigestEntry, WId, WMsg, WOp};
use crate::common::*;
use crate::sim::*;

type Snap = BTreeMap<ChitchatId, (u64, u64, BTreeMap<String, u64>)>;

fn snap(cc: &Chitchat) -> Snap {
    cc.node_states().iter().map(|(id, ns)| (id.clone(), (ns.last_gc_version(), ns.max_version(), ns.key_values_including_deleted().map(|(k, v)| (k.to_string(), v.version)).collect()))).collect()
}

pub struct CaseOut {
    pub findings: Vec<Finding>,
    pub c: Counters,
    pub sample: Value,
    pub hashes: Vec<u64>,
    pub replay: Value,
}

fn pick_u64(rng: &mut StdRng, around: u64) -> u64 {
    match rng.random_range(0..10) {
        0 => 0,
        1 => 1,
        2 => u64::MAX,
        3 => u64::MAX - 1,
        4 => around,
        5 => around.wrapping_add(1),
        6 => around.saturating_sub(1),
        7 => rng.random_range(0..8),
        8 => rng.random_range(0..1000),
        _ => rng.random(),
    }
}

fn hostile_key(rng: &mut StdRng) -> String {
    // a third: 1-4 characters over a mixed-width alphabet (1, 2, 3 and 4-byte characters): keys whose multi-byte characters
    // straddle the byte length of the listener prefixes subscribed on the victim ("a€" vs prefix "ab", "sv€" vs "svc:")
    if rng.random_range(0..3) == 0 {
        let alpha = ["a", "b", "k", "e", "y", "s", "v", "c", ":", "é", "€", "😀"];
        let n = rng.random_range(1..=4);
        return (0..n).map(|_| alpha[rng.random_range(0..alpha.len())]).collect();
    }
    match rng.random_range(0..9) {
        0 => String::new(),
        1 => "a".into(),
        2 => "é".into(),
        3 => "😀k".into(),
        4 => "ab".into(),
        5 => "k".into(),
        6 => "\u{0}".into(),
        7 => "x".repeat(rng.random_range(200..2000)),
        _ => format!("key{}", rng.random_range(0..4)),
    }
}

/// Structure-aware hostile message: syntactically valid ops in semantically arbitrary order.
fn gen_structured(rng: &mut StdRng, ids: &[WId], me: &WId, cluster: &str, novel_left: &mut usize) -> Vec<u8> {
    let pick_id = |rng: &mut StdRng, novel_left: &mut usize| -> WId {
        let r = rng.random_range(0..10);
        if r < 6 && !ids.is_empty() {
            ids[rng.random_range(0..ids.len())].clone()
        } else if r < 8 {
            me.clone()
        } else if *novel_left > 0 {
            *novel_left -= 1;
            WId { node_id: format!("evil{}", rng.random_range(0..1000)), generation: pick_u64(rng, 0), addr: if rng.random_bool(0.5) { addr(rng.random()) } else { "[::ffff:1.2.3.4]:9".parse().unwrap() } }
        } else if !ids.is_empty() {
            ids[rng.random_range(0..ids.len())].clone()
        } else {
            me.clone()
        }
    };
    let nd = match rng.random_range(0..12) {
        0 => 0,
        1 => rng.random_range(20..60),
        _ => rng.random_range(0..6),
    };
    let mut digest = vec![];
    for _ in 0..nd {
        let id = pick_id(rng, novel_left);
        digest.push(WDigestEntry { id, heartbeat: pick_u64(rng, 5), last_gc: pick_u64(rng, 3), max_version: pick_u64(rng, 6) });
    }
    let mut ops = vec![];
    let nops = rng.random_range(0..14);
    let mut last_ver = 0u64;
    for _ in 0..nops {
        match rng.random_range(0..10) {
            0..=2 => {
                let id = pick_id(rng, novel_left);
                ops.push(WOp::Node { id, last_gc: pick_u64(rng, 4), from: pick_u64(rng, last_ver) });
                if rng.random_bool(0.7) {
                    last_ver = 0;
                }
            }
            3..=7 => {
                let version = match rng.random_range(0..6) {
                    0 => pick_u64(rng, last_ver),
                    1 => last_ver,
                    _ => last_ver.saturating_add(rng.random_range(1..3)),
                };
                last_ver = version;
                let vl = if rng.random_bool(0.9) { rng.random_range(0..20) } else { rng.random_range(1000..66_000usize).min(65_535) };
                ops.push(WOp::Kv { key: hostile_key(rng), value: "v".repeat(vl), version, status: if rng.random_bool(0.95) { rng.random_range(0..3) } else { rng.random() } });
            }
            _ => ops.push(WOp::SetMax(pick_u64(rng, last_ver))),
        }
    }
    let msg = match rng.random_range(0..8) {
        0 | 1 => WMsg::Syn { cluster_id: if rng.random_bool(0.8) { cluster.to_string() } else { "other".into() }, digest },
        2..=4 => WMsg::SynAck { digest, ops },
        5 | 6 => WMsg::Ack { ops },
        _ => WMsg::BadCluster,
    };
    let plan = match rng.random_range(0..6) {
        0 => BlockPlan::Threshold(16_384),
        1 => BlockPlan::Raw(rng.random_range(1..70_000)),
        2 => BlockPlan::Zstd(rng.random_range(1..65_535)),
        3 => BlockPlan::Threshold(rng.random_range(1..9)),
        4 => BlockPlan::Cuts((0..rng.random_range(0..6)).map(|_| rng.random_range(0..5_000)).collect()),
        _ => BlockPlan::Raw(65_535),
    };
    let mut bytes = codec::encode_msg(&msg, &plan);
    // occasionally replace the stream by a block that expands to exactly / more than 65,535 bytes, or a huge number of empty blocks
    if matches!(msg, WMsg::Ack { .. }) && rng.random_range(0..12) == 0 {
        bytes.truncate(4);
        match rng.random_range(0..3) {
            0 => {
                let n = [65_535usize, 65_536, 70_000, 200_000][rng.random_range(0..4)];
                // a valid op stream made of one KV with a long value, compressed into a single block
                let mut raw = vec![];
                let vlen = n.saturating_sub(40).min(65_535);
                codec::encode_op(&mut raw, &WOp::Node { id: me.clone(), last_gc: 0, from: 0 });
                codec::encode_op(&mut raw, &WOp::Kv { key: "k".into(), value: "z".repeat(vlen), version: 1, status: 0 });
                raw.resize(n, 2); // pad with SetMaxVersion tags / garbage up to n bytes
                let z = zstd::bulk::compress(&raw, 0).unwrap();
                bytes.push(1);
                bytes.extend_from_slice(&(z.len() as u16).to_le_bytes());
                bytes.extend_from_slice(&z);
                bytes.push(0);
            }
            1 => {
                for _ in 0..rng.random_range(1000..20_000) {
                    bytes.extend_from_slice(&[2, 0, 0]);
                }
                bytes.push(0);
            }
            _ => {
                // compressed block with a lying length
                bytes.push(1);
                bytes.extend_from_slice(&(rng.random::<u16>()).to_le_bytes());
                bytes.extend((0..rng.random_range(0..64)).map(|_| rng.random::<u8>()));
            }
        }
    }
    bytes
}

fn mutate(rng: &mut StdRng, valid: &[u8]) -> Vec<u8> {
    let mut b = valid.to_vec();
    if b.is_empty() {
        return b;
    }
    for _ in 0..rng.random_range(1..4) {
        match rng.random_range(0..7) {
            0 => {
                let i = rng.random_range(0..b.len());
                b[i] ^= 1 << rng.random_range(0..8);
            }
            1 => {
                let n = rng.random_range(0..=b.len());
                b.truncate(n);
            }
            2 => {
                let i = rng.random_range(0..=b.len());
                b.insert(i, rng.random());
            }
            3 => {
                if b.len() > 8 {
                    let i = rng.random_range(4..b.len());
                    let j = rng.random_range(i..b.len().min(i + 16));
                    b.drain(i..j);
                }
            }
            4 => {
                let i = rng.random_range(0..b.len());
                b[i] = [0u8, 1, 2, 0xff, 0x7f, 0x80][rng.random_range(0..6)];
            }
            5 => {
                // overwrite an aligned u64 / u16 with an extreme value
                if b.len() > 12 {
                    let i = rng.random_range(4..b.len() - 8);
                    let v = [0u64, u64::MAX, 1, u64::MAX - 1][rng.random_range(0..4)];
                    b[i..i + 8].copy_from_slice(&v.to_le_bytes());
                }
            }
            _ => {
                let extra: Vec<u8> = (0..rng.random_range(1..32)).map(|_| rng.random()).collect();
                b.extend(extra);
            }
        }
        if b.is_empty() {
            break;
        }
    }
    b
}

/// Checks the invariants C09 names after one datagram / step. `after_eval`: classification must be total.
fn check_invariants(cc: &Chitchat, me: &ChitchatId, before: &Snap, after: &Snap, what: &str, after_eval: bool, in_process: bool, out: &mut Vec<Finding>) {
    for (id, (gc0, mv0, kv0)) in before {
        match after.get(id) {
            None => {
                if in_process {
                    out.push(Finding::new(&["C09"], "hostile.copy_vanished", format!("{what}: the copy of {id:?} disappeared while processing a datagram")));
                }
            }
            Some((gc1, mv1, kv1)) => {
                if (gc1, mv1) < (gc0, mv0) {
                    out.push(Finding::new(&["C09"], "hostile.frontier_decreased", format!("{what}: {id:?} (gc,mv) ({gc0},{mv0}) -> ({gc1},{mv1})")));
                }
                let wiped = gc1 > gc0;
                if !wiped {
                    for (k, v0) in kv0 {
                        if let Some(v1) = kv1.get(k) {
                            if v1 < v0 {
                                out.push(Finding::new(&["C09"], "hostile.key_version_decreased", format!("{what}: {id:?} key {k:?} version {v0} -> {v1} without a reset")));
                            }
                        }
                    }
                }
            }
        }
    }
    let live: Vec<&ChitchatId> = cc.live_nodes().collect();
    let dead: Vec<&ChitchatId> = cc.dead_nodes().collect();
    if let Some(x) = live.iter().find(|l| dead.contains(l)) {
        out.push(Finding::new(&["C09"], "hostile.live_and_dead", format!("{what}: {x:?} is both live and dead")));
    }
    if !live.contains(&me) || dead.contains(&me) || cc.node_state(me).is_none() {
        out.push(Finding::new(&["C09"], "hostile.self_not_live", format!("{what}: own member live={} dead={} known={}", live.contains(&me), dead.contains(&me), cc.node_state(me).is_some())));
    }
    if after_eval {
        for id in cc.node_states().keys() {
            if id == me {
                continue;
            }
            let l = live.contains(&id);
            let d = dead.contains(&id);
            if l == d {
                out.push(Finding::new(&["C09"], "hostile.unclassified", format!("{what}: after an evaluation {id:?} is live={l} dead={d}")));
            }
        }
    }
}

pub async fn run_case(seed: u64, i: u64, verbose: bool) -> CaseOut {
    let tseed = mix3(seed, i, 0xC09);
    let mut crng = rng_from(mix(tseed, 7));
    let profile = if i % 3 == 0 { Profile::Membership } else { Profile::Replication };
    let mut cfg = SimCfg::generate(profile, &mut crng);
    cfg.steps = crng.random_range(10..150);
    cfg.big_values = cfg.big_values && i % 5 == 0;
    let mut w = World::new(cfg, tseed);
    let n = w.slots.len();
    for s in 0..n {
        w.start(s);
    }
    for _ in 0..w.cfg.steps {
        if w.aborted || w.fatal() {
            break;
        }
        w.random_step().await;
    }
    let mut out = CaseOut { findings: vec![], c: Counters::default(), sample: json!(null), hashes: vec![], replay: json!({"engine": "E5", "seed": seed, "case": i}) };
    let ups = w.up_slots();
    if ups.is_empty() || w.aborted {
        out.c.inc("cases_without_victim");
        return out;
    }
    let mut rng = rng_from(mix(tseed, 11));
    let victim = ups[rng.random_range(0..ups.len())];
    let me = w.members[w.slots[victim].member].id.clone();
    let mew = wid(&me);
    let cluster = w.cfg.cluster_ids[0].clone();
    let ids: Vec<WId> = w.members.iter().map(|m| wid(&m.id)).filter(|x| x != &mew).collect();
    let mut pool: Vec<Arc<Vec<u8>>> = w.history.clone();
    pool.extend(w.bag.iter().map(|d| d.bytes.clone()));
    for s in w.up_slots() {
        if let Some(b) = w.emit_syn(s) {
            pool.push(b);
        }
    }
    let mut cc = w.slots[victim].cc.take().unwrap();
    // the application has subscribed to key changes (two cases in three): whatever keys hostile deltas carry, dispatching
    // to the listeners must not panic either
    let events_seen = Arc::new(std::sync::atomic::AtomicUsize::new(0));
    let _listeners: Vec<chitchat::ListenerHandle> = if i % 3 != 2 {
        ["", "a", "ab", "k", "ke", "key", "é", "a€", "sv", "svc:", "😀", "ya"]
            .iter()
            .map(|p| {
                let n = events_seen.clone();
                cc.subscribe_event(*p, move |_ev: chitchat::KeyChangeEvent| {
                    n.fetch_add(1, std::sync::atomic::Ordering::Relaxed);
                })
            })
            .collect()
    } else {
        vec![]
    };
    let seq_len = rng.random_range(1..=20);
    let mut novel_left = 40usize;
    let mut log: Vec<String> = vec![];
    for j in 0..seq_len {
        let before = snap(&cc);
        let kind = rng.random_range(0..100);
        if kind < 8 {
            // interleaved local steps of the victim
            let what;
            let mut after_eval = false;
            match rng.random_range(0..3) {
                0 => {
                    if let Err(p) = catch(|| cc.verif_update_nodes_liveness()) {
                        out.findings.push(Finding::new(&["C09"], "hostile.eval_panic", format!("case {i} step {j}: liveness evaluation after hostile input panicked: {p}")));
                        break;
                    }
                    after_eval = true;
                    what = "eval";
                }
                1 => {
                    if let Err(p) = catch(|| cc.verif_gc_keys_marked_for_deletion()) {
                        out.findings.push(Finding::new(&["C09"], "hostile.gc_panic", format!("case {i} step {j}: GC after hostile input panicked: {p}")));
                        break;
                    }
                    what = "gc";
                }
                _ => {
                    tokio::time::advance(Duration::from_secs(rng.random_range(1..40))).await;
                    what = "advance";
                }
            }
            log.push(what.to_string());
            let after = snap(&cc);
            check_invariants(&cc, &me, &before, &after, &format!("case {i} step {j} ({what})"), after_eval, false, &mut out.findings);
            continue;
        }
        let (bytes, gen): (Vec<u8>, &str) = if kind < 20 {
            let l = match rng.random_range(0..10) {
                0 => 0,
                1 => rng.random_range(60_000..=65_507),
                _ => rng.random_range(0..200),
            };
            let mut b: Vec<u8> = (0..l).map(|_| rng.random()).collect();
            if rng.random_bool(0.7) && b.len() >= 4 {
                b[0..2].copy_from_slice(&codec::MAGIC.to_le_bytes());
                b[2] = 0;
                b[3] = rng.random_range(0..4);
            }
            (b, "random")
        } else if kind < 23 && !pool.is_empty() {
            // a short prefix of a valid datagram: cut inside the magic number, the version, the type, the first length field
            let k = rng.random_range(0..pool.len());
            let l = rng.random_range(0..=14usize).min(pool[k].len());
            (pool[k][..l].to_vec(), "prefix")
        } else if kind < 45 && !pool.is_empty() {
            {
            let k = rng.random_range(0..pool.len());
            (mutate(&mut rng, &pool[k]), "mutated")
        }
        } else if kind < 55 && !pool.is_empty() {
            (pool[rng.random_range(0..pool.len())].to_vec(), "replayed")
        } else {
            (gen_structured(&mut rng, &ids, &mew, &cluster, &mut novel_left), "structured")
        };
        out.c.inc(&format!("datagrams_{gen}"));
        out.hashes.push(mix(hash_of(&bytes[..]), j as u64));
        log.push(format!("{gen}:{}B", bytes.len()));
        let mut cur = &bytes[..];
        let decoded = match catch(|| ChitchatMessage::deserialize(&mut cur)) {
            Ok(r) => r,
            Err(p) => {
                out.findings.push(Finding::new(&["C09"], "hostile.decode_panic", format!("case {i} step {j}: decoding a {gen} datagram of {} bytes panicked: {p}", bytes.len())));
                out.replay["datagram_hex"] = json!(hex(&bytes));
                break;
            }
        };
        let Ok(msg) = decoded else {
            out.c.inc("rejected_by_decoder");
            continue;
        };
        out.c.inc("decoded");
        out.c.inc(&format!("decoded_{gen}"));
        let reply = match catch(|| cc.verif_process_message(msg)) {
            Ok(r) => r,
            Err(p) => {
                out.findings.push(Finding::new(&["C09"], "hostile.process_panic", format!("case {i} step {j}: processing a {gen} datagram of {} bytes panicked: {p}", bytes.len())));
                out.replay["datagram_hex"] = json!(hex(&bytes[..bytes.len().min(4096)]));
                break;
            }
        };
        if let Some(r) = reply {
            match catch(|| r.serialize_to_vec()) {
                Ok(b) => {
                    out.c.inc("replies_serialized");
                    if b.len() != r.serialized_len() {
                        out.findings.push(Finding::new(&["C09", "C08"], "hostile.reply_len", format!("case {i} step {j}: reply announces {} bytes, {} written", r.serialized_len(), b.len())));
                    }
                }
                Err(p) => {
                    out.findings.push(Finding::new(&["C09"], "hostile.reply_serialize_panic", format!("case {i} step {j}: serializing the reply to a {gen} datagram panicked: {p}")));
                    out.replay["datagram_hex"] = json!(hex(&bytes[..bytes.len().min(4096)]));
                    break;
                }
            }
        }
        let after = snap(&cc);
        if after != before {
            out.c.inc("datagrams_that_changed_state");
        }
        check_invariants(&cc, &me, &before, &after, &format!("case {i} step {j} ({gen}, {} bytes)", bytes.len()), false, true, &mut out.findings);
        if !out.findings.is_empty() {
            out.replay["datagram_hex"] = json!(hex(&bytes[..bytes.len().min(4096)]));
            break;
        }
    }
    // a hostile member's whole life cycle: named once with an extreme heartbeat, never heard of again, evaluated dead,
    // forgotten after the dead-node grace period (its last heartbeat is remembered), then named again with equal / lower /
    // higher heartbeats in SYN and SYN-ACK digests
    if out.findings.is_empty() && i % 4 == 1 {
        let z = WId { node_id: format!("zombie-{i}"), generation: rng.random(), addr: crate::common::addr(4000 + (i % 1000) as u16) };
        let h0 = [u64::MAX, u64::MAX - 1, 1u64 << 63, 1, 0][rng.random_range(0..5)];
        let grace = w.cfg.dead_grace;
        let mut steps: Vec<(String, Option<Vec<u8>>)> = vec![];
        steps.push((format!("syn naming the zombie at heartbeat {h0}"), Some(crate::craft::syn_bytes(&cluster, &[WDigestEntry { id: z.clone(), heartbeat: h0, last_gc: 0, max_version: 0 }]))));
        // ... and a delta that gives it a dozen key-values with hostile keys (each one is dispatched to the listeners)
        let mut zops = vec![WOp::Node { id: z.clone(), last_gc: 0, from: 0 }];
        for v in 1..=12u64 {
            zops.push(WOp::Kv { key: hostile_key(&mut rng), value: "v".into(), version: v, status: if v % 5 == 0 { 2 } else { 0 } });
        }
        steps.push(("ack giving the zombie twelve hostile keys".into(), Some(crate::craft::ack_bytes(&zops))));
        steps.push(("eval".into(), None));
        steps.push(("advance-grace".into(), None));
        steps.push(("eval".into(), None));
        for h in [h0, h0.wrapping_sub(1), 0, u64::MAX, h0.wrapping_add(1)] {
            let d = [WDigestEntry { id: z.clone(), heartbeat: h, last_gc: 0, max_version: 0 }];
            steps.push((format!("syn naming the forgotten zombie at heartbeat {h}"), Some(crate::craft::syn_bytes(&cluster, &d))));
            steps.push((format!("synack naming the forgotten zombie at heartbeat {h}"), Some(crate::craft::synack_bytes(&d, &[]))));
        }
        out.c.inc("zombie_life_cycles");
        for (what, bytes) in steps {
            let before = snap(&cc);
            let r: Result<(), String> = match (&bytes, what.as_str()) {
                // (feed turns a panic inside the crate under test into an Err("PANIC ..."))
                (Some(b), _) => match crate::craft::feed(&mut cc, b) {
                    Err(e) if e.starts_with("PANIC") => Err(e),
                    _ => Ok(()),
                },
                (None, "eval") => catch(|| cc.verif_update_nodes_liveness()),
                _ => {
                    tokio::time::advance(grace + Duration::from_secs(1)).await;
                    Ok(())
                }
            };
            log.push(what.clone());
            if let Err(p) = r {
                out.findings.push(Finding::new(&["C09"], "hostile.process_panic", format!("case {i} zombie life cycle, step {what:?}: panicked: {p}")));
                break;
            }
            let after = snap(&cc);
            check_invariants(&cc, &me, &before, &after, &format!("case {i} zombie life cycle ({what})"), what == "eval", bytes.is_some(), &mut out.findings);
            if !out.findings.is_empty() {
                break;
            }
        }
    }
    // the node must still be able to gossip: emit a SYN and answer an honest one
    if out.findings.is_empty() {
        match catch(|| cc.verif_create_syn_message().serialize_to_vec()) {
            Ok(_) => out.c.inc("syn_after_hostile_sequence"),
            Err(p) => out.findings.push(Finding::new(&["C09"], "hostile.syn_panic", format!("case {i}: creating a SYN after the hostile sequence panicked: {p}"))),
        }
    }
    out.c.add("listener_events_during_hostile_sequences", events_seen.load(std::sync::atomic::Ordering::Relaxed) as u64);
    out.sample = json!({"case": i, "victim_state_members": cc.node_states().len(), "sequence": log});
    out.replay["sequence"] = json!(log);
    if verbose {
        println!("{}", serde_json::to_string_pretty(&out.replay).unwrap());
    }
    out
}

fn hex(b: &[u8]) -> String {
    b.iter().map(|x| format!("{x:02x}")).collect()
}

/// Miri pass: hostile SYN datagrams only (no delta => the decoder and the reply never reach zstd),
/// delivered to a node without key-values.
pub fn miri_syn_only(seed: u64, n: usize) -> CaseOut {
    let rt = paused_rt();
    let _g = rt.enter();
    let mut out = CaseOut { findings: vec![], c: Counters::default(), sample: json!(null), hashes: vec![], replay: json!({"engine": "E5-miri-syn-only", "seed": seed}) };
    let mut node = crate::craft::mk_node(crate::craft::simple_id("victim", 9900), &crate::craft::NodeOpts::default());
    let me = node.id.clone();
    let mew = wid(&me);
    let mut rng = rng_from(mix(seed, 0x3141));
    let mut ids: Vec<WId> = vec![];
    for j in 0..n {
        let before = snap(&node.cc);
        let nd = rng.random_range(0..5);
        let mut digest = vec![];
        for _ in 0..nd {
            let id = if !ids.is_empty() && rng.random_bool(0.6) { ids[rng.random_range(0..ids.len())].clone() } else if rng.random_bool(0.2) { mew.clone() } else {
                let id = WId { node_id: format!("m{}", rng.random_range(0..12)), generation: pick_u64(&mut rng, 0), addr: addr(rng.random_range(1..50)) };
                if ids.len() < 20 {
                    ids.push(id.clone());
                }
                id
            };
            digest.push(WDigestEntry { id, heartbeat: pick_u64(&mut rng, 5), last_gc: pick_u64(&mut rng, 0), max_version: pick_u64(&mut rng, 0) });
        }
        let msg = WMsg::Syn { cluster_id: if rng.random_bool(0.8) { "c".into() } else { "é".into() }, digest };
        let mut bytes = codec::encode_msg(&msg, &BlockPlan::Raw(1000));
        if rng.random_bool(0.4) {
            bytes = mutate(&mut rng, &bytes);
            // keep it a SYN (or a BadCluster): a mutated tag could turn it into a message with a delta
            if bytes.len() >= 4 && (bytes[3] == 1 || bytes[3] == 2) {
                bytes[3] = 0;
            }
        }
        out.c.inc("datagrams_structured");
        out.hashes.push(mix(hash_of(&bytes[..]), j as u64));
        let mut cur = &bytes[..];
        let decoded = match catch(|| ChitchatMessage::deserialize(&mut cur)) {
            Ok(r) => r,
            Err(p) => {
                out.findings.push(Finding::new(&["C09"], "hostile.decode_panic", format!("miri pass datagram {j}: {p}")));
                break;
            }
        };
        let Ok(m) = decoded else {
            out.c.inc("rejected_by_decoder");
            continue;
        };
        out.c.inc("decoded");
        match catch(|| node.cc.verif_process_message(m).map(|r| r.serialize_to_vec())) {
            Ok(_) => {}
            Err(p) => {
                out.findings.push(Finding::new(&["C09"], "hostile.process_panic", format!("miri pass datagram {j}: {p}")));
                break;
            }
        }
        if j % 10 == 9 {
            node.cc.verif_update_nodes_liveness();
        }
        let after = snap(&node.cc);
        check_invariants(&node.cc, &me, &before, &after, &format!("miri pass datagram {j}"), false, true, &mut out.findings);
    }
    out
}

/// Writes a seed corpus for the libFuzzer target of /verif/fuzz: datagrams emitted by real nodes in seeded E1
/// traces, each prefixed with the byte that selects the victim's state.
pub fn emit_corpus(dir: &str, seed: u64) {
    let _ = std::fs::create_dir_all(dir);
    let rt = paused_rt();
    let mut n = 0;
    for i in 0..24u64 {
        let tseed = mix3(seed, i, 0xC0);
        let mut crng = rng_from(mix(tseed, 7));
        let mut cfg = SimCfg::generate(if i % 2 == 0 { Profile::Replication } else { Profile::Membership }, &mut crng);
        cfg.steps = 60;
        cfg.big_values = false;
        let mut w = World::new(cfg, tseed);
        rt.block_on(async {
            for s in 0..w.slots.len() {
                w.start(s);
            }
            for _ in 0..60 {
                if w.aborted {
                    break;
                }
                w.random_step().await;
            }
        });
        for (k, d) in w.history.iter().enumerate().filter(|(k, _)| k % 4 == 0) {
            let mut b = vec![(i % 4) as u8];
            b.extend_from_slice(d);
            if b.len() < 4000 {
                let _ = std::fs::write(format!("{dir}/seed-{i}-{k}"), &b);
                n += 1;
            }
        }
    }
    println!("wrote {n} corpus files to {dir}");
}

pub fn check(args: &Args) -> Outcome {
    let mut ev = Evidence::new(args, "exploration");
    if args.has("--miri") {
        let out = miri_syn_only(args.seed, 150);
        ev.counters.merge(&out.c);
        ev.evaluations = out.c.get("datagrams_structured");
        for h in out.hashes {
            ev.distinct.insert(h);
        }
        let v = out.findings.into_iter().map(|f| (f, out.replay.clone())).collect();
        let nothing = ev.counters.get("decoded") == 0;
        return Outcome { evidence: ev, violations: v, nothing_observed: nothing };
    }
    let deadline = Deadline::new(args.tier.pick(200, 3000));
    let n = args.n(20_000, 600_000);
    let seed = args.seed;
    if let Some(p) = &args.replay {
        let doc: Value = std::fs::read_to_string(p).ok().and_then(|s| serde_json::from_str(&s).ok()).unwrap_or(json!({}));
        let rt = paused_rt();
        let out = rt.block_on(run_case(doc["seed"].as_u64().unwrap_or(seed), doc["case"].as_u64().unwrap_or(0), true));
        let mut v = vec![];
        for f in out.findings {
            println!("FINDING {} {}", f.kind, f.detail);
            v.push((f, out.replay.clone()));
        }
        ev.evaluations = 1;
        return Outcome { evidence: ev, violations: v, nothing_observed: false };
    }
    let res = par_run(n, args.threads, |i| {
        if deadline.expired() {
            return None;
        }
        let rt = paused_rt();
        Some(catch(|| rt.block_on(run_case(seed, i, false))))
    });
    let done = res.len() as u64;
    let mut violations = vec![];
    for (i, r) in res {
        ev.evaluations += 1;
        match r {
            Ok(out) => {
                ev.counters.merge(&out.c);
                for h in out.hashes {
                    ev.distinct.insert(h);
                }
                if ev.samples.len() < 4 && out.c.get("decoded") > 2 {
                    ev.samples.push(out.sample);
                }
                for f in out.findings {
                    if f.is_for("C09") {
                        violations.push((f, out.replay.clone()));
                    }
                }
            }
            Err(p) => {
                ev.counters.inc("harness_panics");
                if ev.inconclusive.len() < 3 {
                    ev.inconclusive.push(format!("case {i}: harness panic {p}"));
                }
            }
        }
    }
    if done < n {
        ev.inconclusive.push(format!("wall-clock watchdog: {} of {n} cases not generated", n - done));
    }
    ev.extra.insert("cases".into(), json!(ev.evaluations));
    ev.evaluations = ev.counters.get("datagrams_random") + ev.counters.get("datagrams_mutated") + ev.counters.get("datagrams_replayed") + ev.counters.get("datagrams_structured");
    ev.rule = "case = node taken from a seeded E1 trace (10-150 hostile-prefix steps) + a sequence of 1-20 datagrams: random bytes (with/without valid header), bit-flipped / truncated / spliced / extreme-valued variants of valid datagrams of that trace, replays, and structure-aware streams from the independent encoder (ops in arbitrary order, versions 0 / u64::MAX, watermarks above everything, deltas about the receiver itself, duplicate members, blocks expanding to >= 65,535 bytes, thousands of empty blocks, lying block lengths), interleaved with evaluations / GC / clock advances; distinct = distinct (datagram bytes, position) hashes; all non-trivial".into();
    ev.assumptions = vec!["a hostile sequence introduces at most 40 new short member ids, so the member table still fits a digest (the property's assumption)".into(), "no local writes after hostile input (outside the statement)".into()];
    let nothing = ev.counters.get("decoded") == 0;
    Outcome { evidence: ev, violations, nothing_observed: nothing }
}
