//! E4 — MTU / truncation sweeps (C07) and wire round-trip checks against the independent codec (C08).

use std::collections::BTreeMap;
use std::net::SocketAddr;

use chitchat::verif::message_view;
use chitchat::{Chitchat, ChitchatId, ChitchatMessage, Deserializable, Serializable};
use rand::prelude::*;
use serde_json::{json, Value};

use crate::codec::{self, BlockPlan, WDigestEntry, WId, WMsg, WNodeDelta, WOp};
use crate::common::*;
use crate::craft::*;

const LIMIT: usize = codec::MAX_DATAGRAM;

/// A string of exactly `len` bytes cut from `base` (near-incompressible), padded with ASCII.
fn fit_len(base: &str, len: usize, salt: u64) -> String {
    let mut e = len.min(base.len());
    while !base.is_char_boundary(e) {
        e -= 1;
    }
    let mut s = String::with_capacity(len);
    s.push_str(&base[..e]);
    let mut x = salt | 1;
    while s.len() < len {
        x = x.wrapping_mul(6364136223846793005).wrapping_add(1442695040888963407);
        s.push((33 + ((x >> 33) % 90) as u8) as char);
    }
    s
}

/// Like `fit_len` but starting at byte offset `off` of `base` (moved to a char boundary).
fn fit_from(base: &str, off: usize, len: usize, salt: u64) -> String {
    let mut o = off.min(base.len());
    while !base.is_char_boundary(o) {
        o += 1;
    }
    fit_len(&base[o..], len, salt)
}

struct ReplyStats {
    findings: Vec<Finding>,
    c: Counters,
    sample: Option<Value>,
    hashes: Vec<u64>,
}

/// Everything C07 and C08 say about one emitted message.
/// Decoding is a function of the bytes alone: before a well-formed message is decoded, the same thread's decoder is
/// (for a third of the messages) first handed damaged variants of it — cut by one byte, cut in the middle, end marker
/// flipped — which it must reject without keeping anything that changes what the well-formed bytes decode to.
fn damage_before_decode(bytes: &[u8], st: &mut ReplyStats) {
    if bytes.len() < 6 || hash_of(bytes) % 3 != 0 {
        return;
    }
    let mut flipped = bytes.to_vec();
    let l = flipped.len();
    flipped[l - 1] ^= 0x5a;
    for v in [&bytes[..bytes.len() - 1], &bytes[..bytes.len() / 2 + 2], &flipped[..]] {
        let mut cur = v;
        match catch(|| ChitchatMessage::deserialize(&mut cur)) {
            Ok(_) => st.c.inc("damaged_variants_decoded_first"),
            Err(p) => st.findings.push(Finding::new(&["C09"], "wire.real_decode_panic", format!("real decoder panicked on a damaged datagram: {p}"))),
        }
    }
}

fn check_emission(cc: &Chitchat, msg: &ChitchatMessage, bytes: &[u8], who: &str, st: &mut ReplyStats) -> Option<(WMsg, Vec<WNodeDelta>)> {
    st.c.inc("messages_checked");
    st.c.max("max_message_len", bytes.len() as u64);
    if bytes.len() > LIMIT {
        st.findings.push(Finding::new(&["C07"], "wire.oversize", format!("{who}: emitted {} bytes (> {LIMIT})", bytes.len())));
    }
    if bytes.len() == LIMIT {
        st.c.inc("messages_exactly_at_limit");
    }
    if bytes.len() + 16 >= LIMIT {
        st.c.inc("messages_within_16_bytes_of_limit");
    }
    if bytes.len() != msg.serialized_len() {
        st.findings.push(Finding::new(&["C08"], "wire.announced_len", format!("{who}: serialized_len() = {} but {} bytes written", msg.serialized_len(), bytes.len())));
    }
    // real decoder on real encoding
    damage_before_decode(bytes, st);
    let mut cur = bytes;
    match catch(|| ChitchatMessage::deserialize(&mut cur)) {
        Ok(Ok(m2)) => {
            if !cur.is_empty() {
                st.findings.push(Finding::new(&["C08"], "wire.real_trailing", format!("{who}: real decoder left {} bytes", cur.len())));
            }
            if &m2 != msg {
                st.findings.push(Finding::new(&["C08"], "wire.real_roundtrip", format!("{who}: decoding the encoding gives a different message")));
            }
        }
        Ok(Err(e)) => st.findings.push(Finding::new(&["C08"], "wire.real_decode_failed", format!("{who}: real decoder rejects a real encoding: {e:#}"))),
        Err(p) => st.findings.push(Finding::new(&["C08", "C09"], "wire.real_decode_panic", format!("{who}: real decoder panicked on a real encoding: {p}"))),
    }
    // independent decoder on real encoding
    let (w, info, used) = match codec::decode_msg(bytes) {
        Ok(x) => x,
        Err(e) => {
            st.findings.push(Finding::new(&["C08"], "wire.independent_decode_failed", format!("{who}: independent decoder rejects a real encoding: {e}")));
            return None;
        }
    };
    if used != bytes.len() {
        st.findings.push(Finding::new(&["C08"], "wire.trailing_bytes", format!("{who}: independent decoder used {used} of {} bytes", bytes.len())));
    }
    if view_to_wmsg(&message_view(msg)) != w {
        st.findings.push(Finding::new(&["C08"], "wire.decoders_disagree", format!("{who}: the independent decoding of a {} differs from the message the node built", codec::msg_kind(&w))));
    }
    st.c.add("compressed_blocks", info.compressed as u64);
    st.c.add("uncompressed_blocks", info.uncompressed as u64);
    if info.compressed + info.uncompressed > 1 {
        st.c.inc("multi_block_messages");
    }
    // content dictated by the sender's state
    let dg = codec::msg_digest(&w);
    if !matches!(w, WMsg::Ack { .. } | WMsg::BadCluster) {
        let sched: Vec<ChitchatId> = cc.scheduled_for_deletion_nodes().cloned().collect();
        let want: Vec<WDigestEntry> = cc.node_states().iter().filter(|(id, _)| !sched.contains(id)).map(|(id, ns)| WDigestEntry { id: wid(id), heartbeat: ns.heartbeat().into(), last_gc: ns.last_gc_version(), max_version: ns.max_version() }).collect();
        let mut got = dg.to_vec();
        got.sort_by(|a, b| cid(&a.id).cmp(&cid(&b.id)));
        if got != want {
            st.findings.push(Finding::new(&["C08", "C07"], "wire.digest_content", format!("{who}: digest on the wire ({} entries) differs from the sender's member table ({} entries)", got.len(), want.len())));
        }
    }
    let nodes = match codec::group_ops(codec::msg_ops(&w)) {
        Ok(n) => n,
        Err(e) => {
            st.findings.push(Finding::new(&["C08", "C07"], "wire.malformed_op_stream", format!("{who}: emitted op stream is not well formed: {e}")));
            vec![]
        }
    };
    st.findings.extend(check_deltas_against_sender(cc, &nodes, who));
    for nd in &nodes {
        st.c.inc("node_deltas_checked");
        if let Some(ns) = cc.node_state(&cid(&nd.id)) {
            if nd.max_version < ns.max_version() {
                st.c.inc("node_deltas_truncated");
            }
        }
        if nd.had_set_max {
            st.c.inc("node_deltas_with_max_version_tail");
        }
        if nd.from == 0 && nd.last_gc > 0 {
            st.c.inc("node_deltas_reset");
        }
    }
    st.hashes.push(mix(hash_of(bytes), bytes.len() as u64));
    Some((w, nodes))
}

fn mk_wid(name: &str, gen: u64, a: SocketAddr) -> WId {
    WId { node_id: name.to_string(), generation: gen, addr: a }
}

/// Builds a sender with members and keys according to a seeded layout; returns it together with
/// the cached near-incompressible base string.
struct Layout {
    n_members: usize,
    keys_per_member: usize,
    vlen: usize,
    class: u8,
    own_keys: usize,
}

fn build_sender(rng: &mut StdRng, lay: &Layout, base: &str) -> TestNode {
    let mut s = mk_node(simple_id("sender", 7000), &NodeOpts::default());
    for k in 0..lay.own_keys {
        let v = match lay.class {
            4 => fit_from(base, (k * 37) % 5000, lay.vlen, k as u64),
            c => payload(rng, c, lay.vlen),
        };
        match rng.random_range(0..10) {
            0 => {
                s.cc.self_node_state().set(format!("k{k}"), &v);
                s.cc.self_node_state().delete(&format!("k{k}"));
            }
            1 => s.cc.self_node_state().set_with_ttl(format!("k{k}"), &v),
            _ => s.cc.self_node_state().set(format!("k{k}"), &v),
        }
    }
    for m in 0..lay.n_members {
        let a: SocketAddr = if m % 3 == 0 { format!("[2001:db8::{:x}]:{}", m + 1, 7100 + m).parse().unwrap() } else if m % 7 == 1 { format!("[::ffff:10.0.{}.1]:{}", m % 200, 7100 + m).parse().unwrap() } else { addr(7100 + m as u16) };
        let id = mk_wid(&format!("member-{m}"), m as u64 % 3, a);
        let mut kvs = vec![];
        let mut ver = 0u64;
        for k in 0..lay.keys_per_member {
            ver += rng.random_range(1..3);
            let l = if lay.vlen > 64 { rng.random_range(lay.vlen / 2..=lay.vlen) } else { lay.vlen };
            let v = match lay.class {
                4 => fit_from(base, (m * 101 + k * 13) % 5000, l, (m * 1000 + k) as u64),
                c => payload(rng, c, l),
            };
            let st = [0u8, 0, 0, 0, 1, 2][rng.random_range(0..6)];
            kvs.push((format!("key-{k}"), if st == 1 { String::new() } else { v }, ver, st));
        }
        let gc = if rng.random_bool(0.3) { rng.random_range(0..=ver + 2) } else { 0 };
        let kvs: Vec<_> = kvs.into_iter().filter(|kv| kv.3 == 0 || kv.2 > gc).collect();
        let maxv = ver + if rng.random_bool(0.3) { rng.random_range(0..3) } else { 0 };
        install_member(&mut s.cc, "c", &id, 1 + m as u64, gc, &kvs, maxv).expect("install");
    }
    s
}

fn random_peer_digest(rng: &mut StdRng, cc: &Chitchat, mode: u8) -> Vec<WDigestEntry> {
    let mut d = vec![];
    for (id, ns) in cc.node_states() {
        let (gc, mv) = (ns.last_gc_version(), ns.max_version());
        let choice = if mode == 0 { 0 } else { rng.random_range(0..8) };
        let e = match choice {
            0 => continue, // unknown to the peer
            1 => (0, 0),
            2 => (gc, mv),
            3 => (gc, mv + 1),
            4 => (rng.random_range(0..=gc), rng.random_range(0..=mv)),
            5 => (rng.random_range(0..=gc + 1), mv.saturating_sub(1)),
            6 => (gc.saturating_sub(1), gc.saturating_sub(1)),
            _ => (0, rng.random_range(0..=mv)),
        };
        d.push(WDigestEntry { id: wid(id), heartbeat: rng.random_range(0..5), last_gc: e.0, max_version: e.1 });
    }
    // the peer itself
    d.push(WDigestEntry { id: mk_wid("peer", 0, addr(7999)), heartbeat: 3, last_gc: 0, max_version: 2 });
    if mode == 3 {
        // the peer's digest also announces members the sender has never heard of, some with long ids: they enter the
        // sender's own digest while it answers, and that digest is part of what must fit
        for j in 0..rng.random_range(5..40) {
            let l = [8usize, 60, 200, 400][rng.random_range(0..4)];
            d.push(WDigestEntry { id: mk_wid(&format!("novel-{j}-{}", "n".repeat(l)), j as u64, addr(9000 + j as u16)), heartbeat: 2, last_gc: 0, max_version: 0 });
        }
    }
    d
}

/// SYN -> SYN-ACK and SYN-ACK -> ACK on the sender, both checked.
fn exercise_replies(s: &mut TestNode, digest: &[WDigestEntry], st: &mut ReplyStats, who: &str) {
    match catch(|| feed(&mut s.cc, &syn_bytes("c", digest))) {
        Ok(Ok(Some((m, b)))) => {
            st.c.inc("synacks_produced");
            check_emission(&s.cc, &m, &b, &format!("{who} SYN-ACK"), st);
        }
        Ok(Ok(None)) => st.findings.push(Finding::new(&["C07"], "reply.missing", format!("{who}: SYN got no reply"))),
        Ok(Err(e)) => st.findings.push(Finding::new(&["C08"], "wire.real_decoder_rejects_independent_syn", format!("{who}: {e}"))),
        Err(p) => st.findings.push(Finding::new(&["C07", "C09"], "reply.panic", format!("{who}: producing the SYN-ACK panicked: {p}"))),
    }
    match catch(|| feed(&mut s.cc, &synack_bytes(digest, &[]))) {
        Ok(Ok(Some((m, b)))) => {
            st.c.inc("acks_produced");
            check_emission(&s.cc, &m, &b, &format!("{who} ACK"), st);
        }
        Ok(Ok(None)) => st.findings.push(Finding::new(&["C07"], "reply.missing", format!("{who}: SYN-ACK got no reply"))),
        Ok(Err(e)) => st.findings.push(Finding::new(&["C08"], "wire.real_decoder_rejects_independent_synack", format!("{who}: {e}"))),
        Err(p) => st.findings.push(Finding::new(&["C07", "C09"], "reply.panic", format!("{who}: producing the ACK panicked: {p}"))),
    }
}

/// Budget sweep through the facade: every budget must be respected and the content rule must hold.
fn exercise_budgets(s: &TestNode, digest: &[WDigestEntry], budgets: &[usize], st: &mut ReplyStats, who: &str) {
    let db = codec::encode_digest(digest);
    for &b in budgets {
        match catch(|| s.cc.verif_compute_delta(&db, b)) {
            Ok(Ok(stream)) => {
                st.c.inc("budgeted_deltas");
                if stream.len() > b {
                    st.findings.push(Finding::new(&["C07"], "budget.exceeded", format!("{who}: delta of {} bytes for a budget of {b}", stream.len())));
                }
                if stream.len() == b {
                    st.c.inc("budgeted_deltas_exactly_full");
                }
                let mut c = codec::Cur::new(&stream);
                match codec::decode_stream(&mut c) {
                    Ok((ops, _)) => match codec::group_ops(&ops) {
                        Ok(nodes) => {
                            st.findings.extend(check_deltas_against_sender(&s.cc, &nodes, &format!("{who} budget {b}")));
                            st.hashes.push(mix(hash_of(&stream[..]), b as u64));
                        }
                        Err(e) => st.findings.push(Finding::new(&["C07", "C08"], "budget.malformed", format!("{who}: budget {b}: {e}"))),
                    },
                    Err(e) => st.findings.push(Finding::new(&["C08"], "budget.undecodable", format!("{who}: budget {b}: {e}"))),
                }
            }
            Ok(Err(e)) => st.findings.push(Finding::new(&["C07"], "budget.error", format!("{who}: budget {b}: {e:#}"))),
            Err(p) => st.findings.push(Finding::new(&["C07"], "budget.panic", format!("{who}: budget {b}: {p}"))),
        }
    }
}

/// Boundary-directed search: near-incompressible state whose last written key is swept byte by
/// byte across the point where it stops fitting.
fn exact_fit_sweep(seed: u64, variant: u64, base: &str, st: &mut ReplyStats) {
    let mut rng = rng_from(mix(seed, variant));
    let mut s = mk_node(simple_id("sender", 7000), &NodeOpts::default());
    // members shrink the budget through the digest
    let extra_members = [0usize, 0, 1, 7, 40, 300][(variant % 6) as usize];
    for m in 0..extra_members {
        let id = mk_wid(&format!("m{m}"), 0, addr(8000 + m as u16));
        install_member(&mut s.cc, "c", &id, 1, 0, &[], 0).unwrap();
    }
    // filler layout
    let shape = (variant / 6) % 5;
    let mut filler: Vec<usize> = match shape {
        0 => vec![16_000, 16_000, 16_000],                          // three blocks worth, last key completes
        1 => vec![16_384 - 13, 16_384 - 13, 16_384 - 13],           // ops aligned on block boundaries
        2 => (0..rng.random_range(100..300)).map(|_| rng.random_range(100..400)).collect(), // many small
        3 => vec![],                                                // one huge value
        _ => vec![30_000, 20_000],
    };
    if extra_members >= 300 {
        filler.truncate(2);
    }
    for (i, l) in filler.iter().enumerate() {
        s.cc.self_node_state().set(format!("f{i}"), fit_from(base, (i * 53) % 3000, *l, i as u64));
    }
    let digest = vec![WDigestEntry { id: mk_wid("peer", 0, addr(7999)), heartbeat: 1, last_gc: 0, max_version: 0 }];
    // is the last key included for length L? (monotone in L)
    let included = |s: &mut TestNode, l: usize, st: &mut ReplyStats, check: bool, use_ack: bool| -> bool {
        s.cc.self_node_state().set("z", fit_from(base, 777, l, l as u64));
        let zver = s.cc.self_node_state().max_version();
        let bytes = if use_ack { synack_bytes(&digest, &[]) } else { syn_bytes("c", &digest) };
        match catch(|| feed(&mut s.cc, &bytes)) {
            Ok(Ok(Some((m, b)))) => {
                if check {
                    check_emission(&s.cc, &m, &b, &format!("exact-fit variant {variant} L={l}"), st);
                } else if b.len() > LIMIT {
                    st.findings.push(Finding::new(&["C07"], "wire.oversize", format!("exact-fit variant {variant} L={l}: emitted {} bytes", b.len())));
                }
                let (w, _, _) = codec::decode_msg(&b).unwrap_or((WMsg::BadCluster, Default::default(), 0));
                codec::msg_ops(&w).iter().any(|op| matches!(op, WOp::Kv { key, version, .. } if key == "z" && *version == zver))
            }
            Ok(_) => false,
            Err(p) => {
                st.findings.push(Finding::new(&["C07"], "reply.panic", format!("exact-fit variant {variant} L={l}: {p}")));
                false
            }
        }
    };
    let use_ack = variant % 2 == 1;
    let (mut lo, mut hi) = (0usize, 65_400usize);
    if !included(&mut s, lo, st, false, use_ack) {
        st.c.inc("exact_fit_variants_without_room");
        return;
    }
    while lo + 1 < hi {
        let mid = (lo + hi) / 2;
        if included(&mut s, mid, st, false, use_ack) {
            lo = mid;
        } else {
            hi = mid;
        }
    }
    st.c.inc("exact_fit_boundaries_found");
    let from = lo.saturating_sub(40);
    for l in from..=(lo + 40).min(65_500) {
        included(&mut s, l, st, true, use_ack);
        st.c.inc("exact_fit_points");
    }
}

/// Dense sweep of SMALL budgets (every byte from 100 to 700): a handful of members whose deltas are mostly a node
/// header followed by a lone "max version" op (everything written was deleted and collected) or by one or two tiny
/// entries. Blocks this small are stored raw, so every miscounted byte of an op shows as budget + 1.
fn small_budget_sweep(seed: u64, variant: u64, st: &mut ReplyStats) {
    let mut rng = rng_from(mix3(seed, variant, 0x5B5));
    let mut s = mk_node(simple_id("sender", 7000), &NodeOpts::default());
    let n_members = 1 + (variant % 6) as usize;
    for m in 0..n_members {
        // even variants: nothing in the block repeats (random ids, generations and versions), so that it is stored raw
        let hi = variant % 2 == 0;
        let name = if hi {
            let l = rng.random_range(1..60);
            (0..l).map(|_| b"0123456789abcdefghijklmnopqrstuvwxyzABCDEFGHIJKLMNOPQRSTUVWXYZ"[rng.random_range(0..62)] as char).collect()
        } else if variant % 5 == 4 {
            format!("member-with-a-longer-name-{m:04}")
        } else {
            format!("m{m}")
        };
        let a: SocketAddr = if hi {
            format!("{}.{}.{}.{}:{}", rng.random_range(1..255), rng.random_range(0..255), rng.random_range(0..255), rng.random_range(1..255), rng.random_range(1024..65535)).parse().unwrap()
        } else if m % 2 == 0 {
            addr(8100 + m as u16)
        } else {
            format!("[2001:db8::{:x}]:{}", m + 1, 8100 + m).parse().unwrap()
        };
        let id = mk_wid(&name, if hi { rng.random::<u64>() } else { m as u64 % 2 }, a);
        if hi && rng.random_bool(0.7) {
            // all entries collected long ago: watermark and max version are large unrelated numbers
            let gc = rng.random::<u64>() >> 2;
            let maxv = gc + (rng.random::<u64>() >> 3);
            install_member(&mut s.cc, "c", &id, 1 + m as u64, gc, &[], maxv).expect("install");
            continue;
        }
        let nk = rng.random_range(0..3u64);
        let mut kvs = vec![];
        for k in 0..nk {
            let st_ = [0u8, 1, 2][rng.random_range(0..3)];
            let v: String = if st_ == 1 { String::new() } else { "v".repeat(rng.random_range(0..12)) };
            kvs.push((format!("k{k}"), v, k + 1, st_));
        }
        // half of the members: everything collected (watermark at the last write), only the max version is left to tell
        let all_collected = rng.random_bool(0.5);
        let gc = if all_collected { nk + rng.random_range(0..3) } else { 0 };
        let kvs: Vec<_> = kvs.into_iter().filter(|kv| kv.2 > gc).collect();
        let maxv = gc.max(nk) + rng.random_range(0..3);
        install_member(&mut s.cc, "c", &id, 1 + m as u64, gc, &kvs, maxv).expect("install");
    }
    if variant % 3 == 0 {
        s.cc.self_node_state().set("a", "1");
    }
    for mode in 0..3u8 {
        // mode 0: the peer knows nobody (resets / from 0); otherwise mixed, incl. "same watermark, one version behind"
        let d: Vec<WDigestEntry> = if mode == 2 {
            let mut d: Vec<WDigestEntry> = s.cc.node_states().iter().map(|(id, ns)| WDigestEntry { id: wid(id), heartbeat: 1, last_gc: ns.last_gc_version(), max_version: ns.max_version().saturating_sub(1).max(ns.last_gc_version().min(ns.max_version())) }).collect();
            d.push(WDigestEntry { id: mk_wid("peer", 0, addr(7999)), heartbeat: 3, last_gc: 0, max_version: 2 });
            d
        } else {
            random_peer_digest(&mut rng, &s.cc, mode)
        };
        let budgets: Vec<usize> = (100..=700).collect();
        exercise_budgets(&s, &d, &budgets, st, &format!("small-budget variant {variant} digest-mode {mode}"));
        st.c.add("small_budget_points", budgets.len() as u64);
    }
}

/// An entry that can never travel (key + value above the datagram limit although each is a legal <= 65,000 bytes) sits
/// in the middle of a member's history: every delta must stop right before it — never skip it and go on with the
/// later, smaller entries (that would leave a hole the receiver can never fill).
fn oversize_entry_case(seed: u64, variant: u64, base: &str, st: &mut ReplyStats) {
    let mut rng = rng_from(mix3(seed, variant, 0x0B16));
    let mut s = mk_node(simple_id("sender", 7000), &NodeOpts::default());
    let klen = [600usize, 1_000, 5_000, 30_000, 65_000][(variant % 5) as usize];
    let vlen = if klen >= 30_000 { 40_000 } else { 65_000 };
    let big_key: String = "K".repeat(klen);
    let big_val = if variant % 2 == 0 { fit_from(base, 11, vlen, variant) } else { "v".repeat(vlen) };
    let before = rng.random_range(0..3usize);
    let after = rng.random_range(1..4usize);
    let own = variant % 3 != 0;
    if own {
        for k in 0..before {
            s.cc.self_node_state().set(format!("a{k}"), format!("small-{k}"));
        }
        s.cc.self_node_state().set(&big_key, &big_val);
        for k in 0..after {
            s.cc.self_node_state().set(format!("z{k}"), format!("small-{k}"));
        }
    } else {
        let id = mk_wid("member-big", 0, addr(7100));
        let mut kvs = vec![];
        let mut ver = 0u64;
        for k in 0..before {
            ver += 1;
            kvs.push((format!("a{k}"), format!("small-{k}"), ver, 0u8));
        }
        ver += 1;
        kvs.push((big_key.clone(), big_val.clone(), ver, 0));
        for k in 0..after {
            ver += 1;
            kvs.push((format!("z{k}"), format!("small-{k}"), ver, [0u8, 1, 2][k % 3]));
        }
        let kvs: Vec<_> = kvs.into_iter().map(|(k, v, ver, st_)| (k, if st_ == 1 { String::new() } else { v }, ver, st_)).collect();
        if install_member(&mut s.cc, "c", &id, 1, 0, &kvs, ver).is_err() {
            st.c.inc("oversize_install_failed");
            return;
        }
    }
    st.c.inc("oversize_entry_cases");
    for mode in 0..2u8 {
        let d = random_peer_digest(&mut rng, &s.cc, mode);
        exercise_replies(&mut s, &d, st, &format!("oversize-entry variant {variant} digest-mode {mode}"));
        exercise_budgets(&s, &d, &[100, 1_000, 65_503, 65_507], st, &format!("oversize-entry variant {variant}"));
    }
}

fn run_c07_case(seed: u64, i: u64, base: &str, rt: &tokio::runtime::Runtime) -> ReplyStats {
    let mut st = ReplyStats { findings: vec![], c: Counters::default(), sample: None, hashes: vec![] };
    let mut rng = rng_from(mix3(seed, i, 0xC07));
    let n_members = [0usize, 1, 2, 5, 10, 40][rng.random_range(0..6)];
    let class = [0u8, 1, 2, 3, 4, 4, 4, 4][rng.random_range(0..8)];
    let shape = rng.random_range(0..6);
    let (keys_per_member, vlen, own_keys) = match shape {
        0 => (rng.random_range(0..4), rng.random_range(0..40), rng.random_range(0..6)),
        1 => (rng.random_range(1..20), rng.random_range(100..2_000), rng.random_range(0..30)),
        2 => (rng.random_range(1..4), [16_383usize, 16_384, 16_385, 16_000, 32_768, 8_192][rng.random_range(0..6)], rng.random_range(1..5)),
        3 => (1, rng.random_range(40_000..65_000), 1),
        4 => (rng.random_range(50..300), rng.random_range(0..300), rng.random_range(0..300)),
        _ => (rng.random_range(0..10), rng.random_range(0..20_000), rng.random_range(0..10)),
    };
    let lay = Layout { n_members, keys_per_member, vlen, class, own_keys };
    let mut s = build_sender(&mut rng, &lay, base);
    // a third of the cases: the members were never heard of again, are evaluated dead and, after more than half the
    // dead-node grace period (24 h), scheduled for deletion: no reply may carry them, whatever the peer's digest says
    if i % 3 == 0 && n_members > 0 {
        s.cc.verif_update_nodes_liveness();
        rt.block_on(tokio::time::advance(std::time::Duration::from_secs(13 * 3600)));
        st.c.add("members_scheduled_for_deletion", s.cc.scheduled_for_deletion_nodes().count() as u64);
    }
    st.sample = Some(json!({"case": i, "members": n_members, "keys_per_member": keys_per_member, "own_keys": own_keys, "value_len": vlen, "payload_class": class}));
    for mode in 0..4u8 {
        let d = random_peer_digest(&mut rng, &s.cc, mode);
        exercise_replies(&mut s, &d, &mut st, &format!("case {i} digest-mode {mode}"));
        let mut budgets: Vec<usize> = vec![100, 101, 127, 128, 1_000, 16_383, 16_384, 16_385, 16_390, 32_768, 65_503, 65_507];
        for _ in 0..6 {
            budgets.push(rng.random_range(100..=65_507));
        }
        exercise_budgets(&s, &d, &budgets, &mut st, &format!("case {i}"));
    }
    st
}

pub fn check_c07(args: &Args) -> Outcome {
    let mut ev = Evidence::new(args, "exploration");
    let deadline = Deadline::new(args.tier.pick(200, 3000));
    let mut brng = rng_from(mix(args.seed, 0xBA5E));
    let base = hi_entropy(&mut brng, 70_000);
    let n = args.n(3_000, 200_000);
    let nfit = args.n(240, 6_000);
    let seed = args.seed;
    let nsmall = args.n(60, 3_000);
    let nover = args.n(30, 1_500);
    let res = par_run(n + nfit + nsmall + nover, args.threads, |i| {
        if deadline.expired() {
            return None;
        }
        let rt = paused_rt();
        let _g = rt.enter();
        if i >= n + nfit + nsmall {
            let mut st = ReplyStats { findings: vec![], c: Counters::default(), sample: None, hashes: vec![] };
            oversize_entry_case(seed, i - n - nfit - nsmall, &base, &mut st);
            Some(st)
        } else if i >= n + nfit {
            let mut st = ReplyStats { findings: vec![], c: Counters::default(), sample: None, hashes: vec![] };
            small_budget_sweep(seed, i - n - nfit, &mut st);
            Some(st)
        } else if i < nfit {
            let mut st = ReplyStats { findings: vec![], c: Counters::default(), sample: None, hashes: vec![] };
            exact_fit_sweep(seed, i, &base, &mut st);
            Some(st)
        } else {
            Some(run_c07_case(seed, i - nfit, &base, &rt))
        }
    });
    let done = res.len() as u64;
    let mut violations = vec![];
    // full budget sweep on one mid-sized state (every budget in thorough, stride in quick)
    {
        let rt = paused_rt();
        let _g = rt.enter();
        let mut rng = rng_from(mix(seed, 0xB0D6));
        let lay = Layout { n_members: 3, keys_per_member: 8, vlen: 1_500, class: 4, own_keys: 20 };
        let s = build_sender(&mut rng, &lay, &base);
        let d = random_peer_digest(&mut rng, &s.cc, 0);
        let stride = args.tier.pick(97usize, 1usize);
        let budgets: Vec<usize> = (100..=65_507).step_by(stride).chain([65_507]).collect();
        let mut st = ReplyStats { findings: vec![], c: Counters::default(), sample: None, hashes: vec![] };
        exercise_budgets(&s, &d, &budgets, &mut st, "budget sweep");
        ev.counters.merge(&st.c);
        ev.counters.add("budget_sweep_points", budgets.len() as u64);
        for f in st.findings {
            violations.push((f, json!({"engine": "E4-budget-sweep", "seed": seed})));
        }
        for h in st.hashes {
            ev.distinct.insert(h);
        }
    }
    for (i, st) in res {
        ev.evaluations += 1;
        ev.counters.merge(&st.c);
        for h in st.hashes {
            ev.distinct.insert(h);
        }
        if let Some(s) = st.sample {
            if ev.samples.len() < 5 {
                ev.samples.push(s);
            }
        }
        for f in st.findings {
            if f.is_for("C07") {
                violations.push((f, json!({"engine": "E4", "seed": seed, "case": i, "exact_fit_variants": nfit})));
            } else {
                ev.counters.inc("findings_for_other_properties");
            }
        }
    }
    if done < n + nfit + nsmall + nover {
        ev.inconclusive.push(format!("wall-clock watchdog: {} of {} cases not generated", n + nfit + nsmall + nover - done, n + nfit + nsmall + nover));
    }
    // every reply of whole simulated clusters (members crash, are scheduled for deletion and removed there)
    let e1 = crate::e1::run_e1(args, "C07", &deadline);
    ev.counters.merge(&e1.stats);
    ev.distinct.extend(e1.distinct.iter());
    violations.extend(e1.findings);
    ev.extra.insert("cases".into(), json!(ev.evaluations));
    ev.extra.insert("e1_traces".into(), json!(e1.traces));
    ev.evaluations = ev.counters.get("messages_checked") + ev.counters.get("budgeted_deltas") + ev.counters.get("datagrams_emitted");
    ev.rule = "case = seeded sender state (0-40 members, 0-300 keys, value lengths incl. 16,383..16,385 / 32,768 / 40-65 KB, payload classes constant / english / printable / 7-bit / near-incompressible UTF-8) x 3 peer digests x {SYN-ACK, ACK, 18 budgets}; exact-fit sweeps re-write the last key byte by byte (+-40) around the length where it stops fitting; oversize-entry cases put an entry that can never travel (key + value > 65,507) in the middle of a history; small-budget sweeps try every budget 100..700 on members whose delta is a header plus a lone max-version op or tiny entries; distinct = distinct emitted byte strings (hash); all are non-trivial (each is a reply computed by the real code and parsed by the independent decoder)".into();
    ev.assumptions = vec!["own digest leaves >= 100 bytes (enforced by the generators)".into(), "zstd treated as a black box; only framing is independently decoded".into()];
    let nothing = ev.counters.get("messages_checked") == 0;
    Outcome { evidence: ev, violations, nothing_observed: nothing }
}

// ------------------------------------------------------------------------------------ C08

fn len_class(rng: &mut StdRng) -> usize {
    const L: [usize; 14] = [0, 1, 2, 7, 255, 256, 257, 1_000, 16_383, 16_384, 16_385, 30_000, 65_534, 65_535];
    if rng.random_bool(0.6) {
        rng.random_range(0..12)
    } else {
        L[rng.random_range(0..L.len())]
    }
}
fn rand_string(rng: &mut StdRng, len: usize, base: &str) -> String {
    match rng.random_range(0..4) {
        0 => constant(len),
        1 => englishy(rng, len),
        2 => {
            let off = rng.random_range(0..2000);
            let mut o = off;
            while !base.is_char_boundary(o) {
                o += 1;
            }
            fit_from(base, o, len, len as u64)
        }
        _ => printable(rng, len),
    }
}
fn rand_wid(rng: &mut StdRng, base: &str, small: bool) -> WId {
    let l = if small { rng.random_range(0..10) } else { len_class(rng) };
    const SPECIAL: [&str; 10] = ["[::ffff:10.0.0.1]:10001", "[::ffff:255.255.255.255]:65535", "[::1]:1", "[::]:0", "0.0.0.0:0", "255.255.255.255:65535", "[::1.2.3.4]:80", "[fe80::1]:7280", "[64:ff9b::192.0.2.33]:9", "127.0.0.1:7280"];
    let a: SocketAddr = if rng.random_bool(0.25) {
        SPECIAL[rng.random_range(0..SPECIAL.len())].parse().unwrap()
    } else if rng.random_bool(0.4) {
        let segs: [u16; 8] = rng.random();
        SocketAddr::new(std::net::IpAddr::V6(std::net::Ipv6Addr::new(segs[0], segs[1], segs[2], segs[3], segs[4], segs[5], segs[6], segs[7])), rng.random())
    } else {
        let o: [u8; 4] = rng.random();
        SocketAddr::new(std::net::IpAddr::V4(std::net::Ipv4Addr::new(o[0], o[1], o[2], o[3])), rng.random())
    };
    WId { node_id: rand_string(rng, l, base), generation: if rng.random_bool(0.2) { u64::MAX } else { rng.random_range(0..5) }, addr: a }
}

/// (b) independent encoder -> real decoder
fn independent_to_real(seed: u64, i: u64, base: &str) -> ReplyStats {
    let mut st = ReplyStats { findings: vec![], c: Counters::default(), sample: None, hashes: vec![] };
    let mut rng = rng_from(mix3(seed, i, 0xC08));
    let n_digest = match rng.random_range(0..10) {
        0 => 0,
        1 => rng.random_range(500..2_000),
        _ => rng.random_range(0..12),
    };
    let mut digest: BTreeMap<ChitchatId, WDigestEntry> = BTreeMap::new();
    for _ in 0..n_digest {
        let small = n_digest > 20 || rng.random_bool(0.8);
        let id = rand_wid(&mut rng, base, small);
        digest.insert(cid(&id), WDigestEntry { id, heartbeat: rng.random(), last_gc: rng.random_range(0..10), max_version: if rng.random_bool(0.1) { u64::MAX } else { rng.random_range(0..100) } });
    }
    // one case in twelve: a digest of minimal entries only (empty node id, IPv4 address, distinct by generation and port)
    // followed by nothing or next to nothing (SYN-ACK with an empty delta, SYN with a tiny cluster id)
    let minimal = i % 12 == 5;
    if minimal {
        digest.clear();
        for j in 0..rng.random_range(1..40u64) {
            let id = WId { node_id: String::new(), generation: j, addr: addr(1000 + j as u16) };
            digest.insert(cid(&id), WDigestEntry { id, heartbeat: j, last_gc: 0, max_version: j });
        }
    }
    let mut dvec: Vec<WDigestEntry> = digest.values().cloned().collect();
    dvec.shuffle(&mut rng);
    // ops: valid per the documented grouping rules
    let mut ops = vec![];
    let mut seen = std::collections::HashSet::new();
    let n_nodes = if minimal { 0 } else { rng.random_range(0..5) };
    let mut budget: usize = 200_000;
    for _ in 0..n_nodes {
        let small = rng.random_bool(0.8);
        let id = rand_wid(&mut rng, base, small);
        if !seen.insert(id.clone()) {
            continue;
        }
        ops.push(WOp::Node { id, last_gc: rng.random_range(0..10), from: rng.random_range(0..10) });
        let mut ver = rng.random_range(0..5u64);
        let nk = rng.random_range(0..6);
        for _ in 0..nk {
            ver += rng.random_range(1..4);
            let kl = if rng.random_bool(0.8) { rng.random_range(0..10) } else { len_class(&mut rng) };
            let vl = len_class(&mut rng);
            if kl + vl > budget {
                continue;
            }
            budget -= kl + vl;
            ops.push(WOp::Kv { key: rand_string(&mut rng, kl, base), value: rand_string(&mut rng, vl, base), version: ver, status: rng.random_range(0..3) });
        }
        if nk == 0 && rng.random_bool(0.6) {
            ops.push(WOp::SetMax(rng.random_range(1..50)));
        }
    }
    let kind = rng.random_range(0..4);
    let w = match kind {
        0 => WMsg::Syn { cluster_id: if minimal { "c".to_string() } else { let l = len_class(&mut rng); rand_string(&mut rng, l, base) }, digest: dvec.clone() },
        1 => WMsg::SynAck { digest: dvec.clone(), ops: ops.clone() },
        2 => WMsg::Ack { ops: ops.clone() },
        _ => WMsg::BadCluster,
    };
    let plan = match rng.random_range(0..6) {
        0 => BlockPlan::Threshold(16_384),
        1 => BlockPlan::Raw(rng.random_range(1..70_000)),
        2 => BlockPlan::Zstd(rng.random_range(16..60_000)),
        3 => BlockPlan::Threshold(rng.random_range(1..200)),
        4 => BlockPlan::Cuts((0..rng.random_range(0..12)).map(|_| rng.random_range(0..100_000)).collect()),
        _ => BlockPlan::Raw(65_535),
    };
    let bytes = codec::encode_msg(&w, &plan);
    st.c.inc("independent_encodings");
    st.c.inc(&format!("independent_{}", codec::msg_kind(&w)));
    st.sample = Some(json!({"case": i, "kind": codec::msg_kind(&w), "digest_entries": dvec.len(), "ops": ops.len(), "bytes": bytes.len(), "plan": format!("{:?}", plan).chars().take(60).collect::<String>()}));
    st.hashes.push(hash_of(&bytes[..]));
    damage_before_decode(&bytes, &mut st);
    let mut cur = &bytes[..];
    match catch(|| ChitchatMessage::deserialize(&mut cur)) {
        Ok(Ok(m)) => {
            if !cur.is_empty() {
                st.findings.push(Finding::new(&["C08"], "wire.real_trailing", format!("case {i}: real decoder left {} of {} bytes of an independent {}", cur.len(), bytes.len(), codec::msg_kind(&w))));
            }
            let got = view_to_wmsg(&message_view(&m));
            // compare modulo digest order (the layout does not prescribe one) and op grouping
            let norm = |m: &WMsg| -> (String, Vec<WDigestEntry>, Vec<(WId, u64, u64, u64, Vec<codec::WKv>)>, String) {
                let mut d = codec::msg_digest(m).to_vec();
                d.sort_by(|a, b| cid(&a.id).cmp(&cid(&b.id)));
                let g = codec::group_ops(codec::msg_ops(m)).unwrap_or_default().into_iter().map(|n| (n.id, n.last_gc, n.from, n.max_version, n.kvs)).collect();
                let cl = if let WMsg::Syn { cluster_id, .. } = m { cluster_id.clone() } else { String::new() };
                (codec::msg_kind(m).to_string(), d, g, cl)
            };
            if norm(&got) != norm(&w) {
                st.findings.push(Finding::new(&["C08"], "wire.real_decoder_disagrees", format!("case {i}: real decoder's reading of an independently encoded {} ({} bytes, plan {:?}) differs from what was encoded", codec::msg_kind(&w), bytes.len(), plan)));
            }
            if m.serialized_len() != bytes.len() {
                // serialized_len of a decoded message is the number of bytes it was decoded from
                st.findings.push(Finding::new(&["C08"], "wire.decoded_len", format!("case {i}: decoded message announces {} bytes, was decoded from {}", m.serialized_len(), bytes.len())));
            }
        }
        Ok(Err(e)) => st.findings.push(Finding::new(&["C08"], "wire.real_decoder_rejects_independent", format!("case {i}: real decoder rejects an independently encoded {} ({} bytes, plan {:?}): {e:#}", codec::msg_kind(&w), bytes.len(), plan))),
        Err(p) => st.findings.push(Finding::new(&["C08", "C09"], "wire.real_decode_panic", format!("case {i}: {p}"))),
    }
    st
}

/// (a) real nodes driven into states whose emissions cover the quantifier.
fn real_emissions(seed: u64, i: u64, base: &str) -> ReplyStats {
    let mut st = ReplyStats { findings: vec![], c: Counters::default(), sample: None, hashes: vec![] };
    let mut rng = rng_from(mix3(seed, i, 0xC08A));
    // strings at the very top of the length range can only travel in a SYN (no budget applies to it): the cluster id
    // and the node's own id at 65,534 / 65,535 bytes
    if i % 40 == 7 || i % 40 == 8 {
        let big = [65_535usize, 65_534, 65_535, 65_533][rng.random_range(0..4)];
        let (own_len, cl_len) = if i % 40 == 7 { (3, big) } else { (big, 2) };
        let own = ChitchatId::new(rand_string(&mut rng, own_len, base), 1, addr(7000));
        let cluster = rand_string(&mut rng, cl_len, base);
        let s = mk_node(own, &NodeOpts { cluster: cluster.clone(), ..Default::default() });
        st.sample = Some(json!({"case": i, "own_id_len": own_len, "cluster_id_len": cl_len, "syn_only": true}));
        match catch(|| {
            let m = s.cc.verif_create_syn_message();
            let b = m.serialize_to_vec();
            (m, b)
        }) {
            Ok((m, b)) => {
                st.c.inc("real_syn");
                st.c.inc("real_syn_with_string_at_top_of_range");
                check_emission(&s.cc, &m, &b, &format!("case {i} SYN with a {big}-byte string"), &mut st);
            }
            Err(p) => st.findings.push(Finding::new(&["C08"], "wire.emit_panic", format!("case {i}: emitting a SYN whose cluster id / node id is {big} bytes long panicked: {p}"))),
        }
        return st;
    }
    // a large, highly compressible state: more than a megabyte of key-values that still fits one datagram once compressed
    // (what a datagram may inflate to is bounded by the block format only, not by any fixed total)
    if i % 40 == 9 {
        let mut s = mk_node(ChitchatId::new("bloated".to_string(), 0, addr(7000)), &NodeOpts::default());
        let nkeys = rng.random_range(1_200..3_000usize);
        let vlen = rng.random_range(700..1_200usize);
        for k in 0..nkeys {
            let v: String = format!("{{\"service\":\"indexer\",\"shard\":{k},\"state\":\"ready\",\"padding\":\"{}\"}}", "x".repeat(vlen));
            s.cc.self_node_state().set(format!("node/{k:05}"), v);
        }
        st.sample = Some(json!({"case": i, "bloated_state_keys": nkeys, "value_len": vlen}));
        let d = vec![WDigestEntry { id: mk_wid("peer", 0, addr(7999)), heartbeat: 1, last_gc: 0, max_version: 0 }];
        let before = st.c.get("messages_checked");
        exercise_replies(&mut s, &d, &mut st, &format!("case {i} bloated compressible state ({nkeys} keys of {vlen} bytes)"));
        st.c.add("bloated_state_messages", st.c.get("messages_checked") - before);
        return st;
    }
    let own_len = [0usize, 1, 5, 255, 256, 16_384, 60_000][rng.random_range(0..7)];
    let own = ChitchatId::new(rand_string(&mut rng, own_len, base), rng.random_range(0..3), if rng.random_bool(0.5) { "[::1]:7000".parse().unwrap() } else { addr(7000) });
    let cluster = { let l = [0usize, 1, 7, 255, 256][rng.random_range(0..5)]; rand_string(&mut rng, l, base) };
    let mut s = mk_node(own, &NodeOpts { cluster: cluster.clone(), ..Default::default() });
    // own keys of every status and length class
    for k in 0..rng.random_range(0..8) {
        let key = { let l = if rng.random_bool(0.7) { rng.random_range(0..8) } else { [255usize, 256, 16_383][rng.random_range(0..3)] }; rand_string(&mut rng, l, base) + &k.to_string() };
        let v = { let l = len_class(&mut rng).min(40_000); rand_string(&mut rng, l, base) };
        let ns = s.cc.self_node_state();
        match rng.random_range(0..5) {
            0 => {
                ns.set(&key, &v);
                ns.delete(&key);
            }
            1 => ns.set_with_ttl(&key, &v),
            2 => {
                ns.set(&key, &v);
                ns.delete_after_ttl(&key);
            }
            _ => ns.set(&key, &v),
        }
    }
    // members with exotic ids, empty members, members with only a max version
    let nm = match rng.random_range(0..8) {
        0 => rng.random_range(300..900),
        _ => rng.random_range(0..6),
    };
    let budget_for_ids = 60_000usize.saturating_sub(codec::id_len(&wid(&s.id)) + 30);
    let mut used = 0usize;
    for m in 0..nm {
        let small = nm > 10 || rng.random_bool(0.6);
        let id = rand_wid(&mut rng, base, small);
        let need = codec::id_len(&id) + 24;
        if used + need > budget_for_ids {
            continue;
        }
        used += need;
        let mut kvs = vec![];
        let mut ver = 0;
        for k in 0..(if nm > 10 { rng.random_range(0..2) } else { rng.random_range(0..5) }) {
            ver += rng.random_range(1..3);
            let st_ = rng.random_range(0..3u8);
            let l = if rng.random_bool(0.8) { rng.random_range(0..50) } else { len_class(&mut rng).min(20_000) };
            kvs.push((format!("k{k}"), if st_ == 1 { String::new() } else { rand_string(&mut rng, l, base) }, ver, st_));
        }
        let gc = if rng.random_bool(0.3) { rng.random_range(0..4) } else { 0 };
        let kvs: Vec<_> = kvs.into_iter().filter(|kv| kv.3 == 0 || kv.2 > gc).collect();
        let maxv = if kvs.is_empty() && rng.random_bool(0.5) { rng.random_range(0..9) } else { ver + rng.random_range(0..2) };
        if let Err(e) = install_member(&mut s.cc, &cluster, &id, 1 + m as u64, gc, &kvs, maxv) {
            let kind = if e.starts_with("PANIC") { "wire.panic_while_processing_independent_encoding" } else { "wire.real_decoder_rejects_independent" };
            st.findings.push(Finding::new(&["C08"], kind, format!("case {i}: install: {e}")));
        }
    }
    st.sample = Some(json!({"case": i, "own_id_len": own_len, "cluster_id_len": cluster.len(), "members": s.cc.node_states().len()}));
    // SYN
    let syn = s.cc.verif_create_syn_message();
    let b = syn.serialize_to_vec();
    st.c.inc("real_syn");
    check_emission(&s.cc, &syn, &b, &format!("case {i} SYN"), &mut st);
    // SYN-ACK / ACK for several peer digests
    for mode in 0..3u8 {
        let d = random_peer_digest(&mut rng, &s.cc, mode);
        for (bytes, label) in [(syn_bytes(&cluster, &d), "SYN-ACK"), (synack_bytes(&d, &[]), "ACK")] {
            match catch(|| feed(&mut s.cc, &bytes)) {
                Ok(Ok(Some((m, b)))) => {
                    st.c.inc(&format!("real_{}", label.to_lowercase().replace('-', "")));
                    check_emission(&s.cc, &m, &b, &format!("case {i} {label}"), &mut st);
                }
                Ok(Ok(None)) => {}
                Ok(Err(e)) => st.findings.push(Finding::new(&["C08"], "wire.real_decoder_rejects_independent", format!("case {i} {label}: {e}"))),
                Err(p) => st.findings.push(Finding::new(&["C08", "C07", "C09"], "reply.panic", format!("case {i} {label}: {p}"))),
            }
        }
    }
    // BadCluster
    let foreign = syn_bytes(&(cluster.clone() + "x"), &[]);
    if let Ok(Ok(Some((m, b)))) = catch(|| feed(&mut s.cc, &foreign)) {
        st.c.inc("real_badcluster");
        check_emission(&s.cc, &m, &b, &format!("case {i} BadCluster"), &mut st);
        if b.len() != 4 {
            st.findings.push(Finding::new(&["C08"], "wire.badcluster_len", format!("BadCluster is {} bytes", b.len())));
        }
    }
    st
}

pub fn check_c08(args: &Args) -> Outcome {
    let mut ev = Evidence::new(args, "exploration");
    let deadline = Deadline::new(args.tier.pick(200, 3000));
    let mut brng = rng_from(mix(args.seed, 0xBA5E));
    let base = hi_entropy(&mut brng, 70_000);
    let na = args.n(2_000, 100_000);
    let nb = args.n(30_000, 2_000_000);
    let seed = args.seed;
    let res = par_run(na + nb, args.threads, |i| {
        if deadline.expired() {
            return None;
        }
        let rt = paused_rt();
        let _g = rt.enter();
        Some(if i < na { real_emissions(seed, i, &base) } else { independent_to_real(seed, i - na, &base) })
    });
    let done = res.len() as u64;
    let mut violations = vec![];
    for (i, st) in res {
        ev.evaluations += 1;
        ev.counters.merge(&st.c);
        for h in st.hashes {
            ev.distinct.insert(h);
        }
        if let Some(s) = st.sample {
            if ev.samples.len() < 6 && (i < 3 || i >= na) {
                ev.samples.push(s);
            }
        }
        for f in st.findings {
            if f.is_for("C08") {
                violations.push((f, json!({"engine": "E4", "seed": seed, "case": i, "real_emission_cases": na})));
            } else {
                ev.counters.inc("findings_for_other_properties");
            }
        }
    }
    if done < na + nb {
        ev.inconclusive.push(format!("wall-clock watchdog: {} of {} cases not generated", na + nb - done, na + nb));
    }
    // (c) what actually leaves a node on the real UDP transport over loopback, also right after failed sends: every
    // datagram received from the server is exactly one well-formed message (wall clock; a missing answer is inconclusive)
    if !args.has("--no-udp") {
        let rt = tokio::runtime::Builder::new_multi_thread().worker_threads(2).enable_all().build().unwrap();
        for r in 0..args.tier.pick(2u64, 10u64) {
            let (f, c, inc) = rt.block_on(crate::server::udp_scenario(seed, 1_000 + r));
            ev.counters.merge(&c);
            for x in f {
                if x.is_for("C08") {
                    violations.push((x, json!({"engine": "E10-udp", "seed": seed, "round": 1_000 + r})));
                }
            }
            ev.inconclusive.extend(inc);
        }
    }
    ev.extra.insert("cases".into(), json!(ev.evaluations));
    ev.evaluations = ev.counters.get("messages_checked") + ev.counters.get("independent_encodings");
    ev.rule = "(a) real nodes (ids of length 0/1/255/256/16,384/60,000, IPv4+IPv6, every status, empty members, max-version tails, up to 900 members) emit SYN / SYN-ACK / ACK / BadCluster: announced length, real re-decode (==, nothing left), independent decode == the node's own view, content == sender state; (b) independently encoded messages (string lengths 0,1,255,256,16,383..16,385,65,534,65,535; raw / zstd / tiny / 65,535-byte / randomly cut blocks; digests up to 2,000 entries) decoded by the real decoder and compared; (c) datagrams received from a real server over UDP loopback, also right after failed sends, are exactly one well-formed message each; distinct = distinct byte strings (hash), each one a different message".into();
    ev.assumptions = vec!["strings <= 65,535 bytes and <= 65,535 digest entries (the quantifier)".into(), "zstd is a black box shared by both codecs".into()];
    let nothing = ev.counters.get("messages_checked") == 0 || ev.counters.get("independent_encodings") == 0;
    Outcome { evidence: ev, violations, nothing_observed: nothing }
}
