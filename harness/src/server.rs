//! E10 — the gossip server under a scripted in-process transport with the paused clock, and
//! over real UDP on loopback (C19, fault enumeration).

use std::net::SocketAddr;
use std::sync::{Arc, Mutex};
use std::time::Duration;

use async_trait::async_trait;
use chitchat::transport::{Socket, Transport, UdpTransport};
use chitchat::verif::{message_view, MessageView};
use chitchat::{spawn_chitchat, ChitchatConfig, ChitchatId, ChitchatMessage, Deserializable, FailureDetectorConfig};
use rand::prelude::*;
use serde_json::{json, Value};
use tokio::sync::mpsc;
use tokio::time::Instant;

use crate::codec::{self, WDigestEntry, WId};
use crate::common::*;
use crate::craft::syn_bytes;

#[derive(Clone, Copy, Debug, PartialEq, Eq, Hash)]
pub enum Ev {
    SendOk,
    SendErr,
    SendDelay,
    RecvSyn,
    RecvFatal,
    RecvPanic,
}
const ALPHABET: [Ev; 6] = [Ev::SendOk, Ev::SendErr, Ev::SendDelay, Ev::RecvSyn, Ev::RecvFatal, Ev::RecvPanic];

#[derive(Clone, Copy, Debug, PartialEq, Eq, Hash)]
pub enum Extra {
    None,
    Shutdown(usize),
    UserLock(usize),
    /// the user asks for a handshake with a given address (ChitchatHandle::gossip)
    GossipCmd(usize),
    /// a handshake request immediately followed by a shutdown request (both queued before the loop looks)
    GossipThenShutdown(usize),
    /// the user takes the lock at every script position and every half second while delayed sends drain
    UserLockEverywhere,
}

#[derive(Clone, Debug)]
struct SendRec {
    at: Duration,
    to: SocketAddr,
    kind: &'static str,
    outcome: &'static str,
}

enum Inject {
    Msg(SocketAddr, ChitchatMessage),
    Fatal,
    Panic,
}

#[derive(Default)]
struct Shared {
    mode: u8, // 0 ok, 1 err, 2 delay
    sends: Vec<SendRec>,
    t0: Option<Instant>,
    /// how long a delayed send takes (default DELAY)
    delay: Option<Duration>,
}

struct ScriptedTransport {
    shared: Arc<Mutex<Shared>>,
    rx: Mutex<Option<mpsc::UnboundedReceiver<Inject>>>,
}
struct ScriptedSocket {
    shared: Arc<Mutex<Shared>>,
    rx: mpsc::UnboundedReceiver<Inject>,
}

#[async_trait]
impl Transport for ScriptedTransport {
    async fn open(&self, _listen_addr: SocketAddr) -> anyhow::Result<Box<dyn Socket>> {
        let rx = self.rx.lock().unwrap().take().ok_or_else(|| anyhow::anyhow!("already opened"))?;
        Ok(Box::new(ScriptedSocket { shared: self.shared.clone(), rx }))
    }
}

const DELAY: Duration = Duration::from_millis(2500);

#[async_trait]
impl Socket for ScriptedSocket {
    async fn send(&mut self, to: SocketAddr, msg: ChitchatMessage) -> anyhow::Result<()> {
        let kind = match message_view(&msg) {
            MessageView::Syn { .. } => "syn",
            MessageView::SynAck { .. } => "synack",
            MessageView::Ack { .. } => "ack",
            MessageView::BadCluster => "badcluster",
        };
        let (mode, delay) = {
            let mut s = self.shared.lock().unwrap();
            let at = Instant::now() - s.t0.unwrap();
            let mode = s.mode;
            s.sends.push(SendRec { at, to, kind, outcome: ["ok", "err", "delay"][mode as usize] });
            (mode, s.delay.unwrap_or(DELAY))
        };
        match mode {
            1 => Err(anyhow::anyhow!("scripted send failure (e.g. EMSGSIZE / unreachable)")),
            2 => {
                tokio::time::sleep(delay).await;
                Ok(())
            }
            _ => Ok(()),
        }
    }
    async fn recv(&mut self) -> anyhow::Result<(SocketAddr, ChitchatMessage)> {
        match self.rx.recv().await {
            Some(Inject::Msg(from, m)) => Ok((from, m)),
            Some(Inject::Fatal) => Err(anyhow::anyhow!("scripted fatal recv error")),
            Some(Inject::Panic) => panic!("scripted panic inside recv"),
            None => std::future::pending().await,
        }
    }
}

fn server_config(port: u16, seed: SocketAddr) -> ChitchatConfig {
    let id = ChitchatId::new(format!("srv{port}"), 0, addr(port));
    ChitchatConfig {
        chitchat_id: id.clone(),
        cluster_id: "c".into(),
        gossip_interval: Duration::from_secs(1),
        listen_addr: id.gossip_advertise_addr,
        seed_nodes: vec![seed.to_string()],
        failure_detector_config: FailureDetectorConfig::default(),
        marked_for_deletion_grace_period: Duration::from_secs(3600),
        catchup_callback: None,
        extra_liveness_predicate: None,
    }
}

pub struct ScOut {
    pub findings: Vec<Finding>,
    pub c: Counters,
}

/// One scripted scenario under the paused clock.
pub async fn scenario(script: &[Ev], extra_in: Extra, out: &mut ScOut) {
    let what = format!("script {script:?} extra {extra_in:?}");
    let everywhere = extra_in == Extra::UserLockEverywhere;
    let extra = if everywhere { Extra::UserLock(usize::MAX) } else { extra_in };
    let seed_addr = addr(30_001);
    let peer_addr = addr(30_002);
    let shared = Arc::new(Mutex::new(Shared { mode: 0, sends: vec![], t0: Some(Instant::now()), delay: None }));
    let (tx, rx) = mpsc::unbounded_channel();
    let transport = ScriptedTransport { shared: shared.clone(), rx: Mutex::new(Some(rx)) };
    let handle = match spawn_chitchat(server_config(30_000, seed_addr), vec![], &transport).await {
        Ok(h) => h,
        Err(e) => {
            out.findings.push(Finding::new(&["C19"], "server.spawn_failed", format!("{what}: {e:#}")));
            return;
        }
    };
    let t0 = shared.lock().unwrap().t0.unwrap();
    let hb = |h: &chitchat::ChitchatHandle| {
        let c = h.chitchat();
        async move { u64::from(c.lock().await.self_node_state().heartbeat()) }
    };
    let peer_id = WId { node_id: "peer".into(), generation: 0, addr: peer_addr };
    let mut peer_hb = 7u64;
    // terminal: 0 none, 1 fatal, 2 panic, 3 shutdown; at what virtual time
    let mut terminal: Option<(u8, Duration)> = None;
    // a fatal error / panic injected after a shutdown request but possibly before the loop saw the request:
    // both are pending in the select, either may win
    let mut ambiguous = false;
    let mut syn_times: Vec<Duration> = vec![];
    let mut gossip_cmd_at: Option<Duration> = None;
    tokio::time::sleep(Duration::from_millis(500)).await;
    for (j, ev) in script.iter().enumerate() {
        let now = Instant::now() - t0;
        if let Extra::GossipThenShutdown(p) = extra {
            if p == j && terminal.is_none() {
                let _ = handle.gossip(addr(30_003));
                let _ = handle.initiate_shutdown();
                terminal = Some((3, now));
                out.c.inc("shutdown_requests");
                out.c.inc("gossip_then_shutdown");
            }
        }
        if let Extra::Shutdown(p) = extra {
            if p == j && terminal.is_none() {
                let _ = handle.initiate_shutdown();
                terminal = Some((3, now));
                out.c.inc("shutdown_requests");
            }
        }
        if let Extra::GossipCmd(p) = extra {
            if p == j && terminal.is_none() {
                let _ = handle.gossip(addr(30_003));
                gossip_cmd_at = Some(now);
                out.c.inc("gossip_commands");
            }
        }
        if let Extra::UserLock(p) = extra {
            if p == j || p == usize::MAX {
                out.c.inc("user_lock_acquisitions");
                let r = tokio::time::timeout(Duration::from_millis(1), handle.with_chitchat(|c| {
                    c.self_node_state().set("user", format!("v{j}"));
                    c.self_node_state().max_version()
                }))
                .await;
                if r.is_err() {
                    out.findings.push(Finding::new(&["C19"], "server.user_access_blocked", format!("{what}: with_chitchat did not return at t={now:?} (the loop holds the lock across a send or never releases it)")));
                }
            }
        }
        match ev {
            Ev::SendOk => shared.lock().unwrap().mode = 0,
            Ev::SendErr => shared.lock().unwrap().mode = 1,
            Ev::SendDelay => shared.lock().unwrap().mode = 2,
            Ev::RecvSyn => {
                peer_hb += 1;
                let peer_syn = syn_bytes("c", &[WDigestEntry { id: peer_id.clone(), heartbeat: peer_hb, last_gc: 0, max_version: 0 }]);
                let m = ChitchatMessage::deserialize(&mut &peer_syn[..]).unwrap();
                let _ = tx.send(Inject::Msg(peer_addr, m));
                if terminal.is_none() {
                    syn_times.push(now);
                }
                out.c.inc("syns_injected");
            }
            Ev::RecvFatal => {
                let _ = tx.send(Inject::Fatal);
                if terminal.is_none() {
                    terminal = Some((1, now));
                } else if matches!(terminal, Some((3, _))) {
                    ambiguous = true;
                }
                out.c.inc("fatal_recv_errors_injected");
            }
            Ev::RecvPanic => {
                let _ = tx.send(Inject::Panic);
                if terminal.is_none() {
                    terminal = Some((2, now));
                } else if matches!(terminal, Some((3, _))) {
                    ambiguous = true;
                }
                out.c.inc("recv_panics_injected");
            }
        }
        tokio::time::sleep(Duration::from_secs(1)).await;
    }
    let end_of_script = Instant::now() - t0;
    // a round also evaluates liveness, whether its sends succeeded or not: a peer whose third fresh heartbeat
    // arrived at least 1.5 s ago is live by now (no delayed send shifted the rounds)
    if terminal.is_none() && !script.contains(&Ev::SendDelay) && syn_times.len() >= 3 && end_of_script >= syn_times[2] + Duration::from_millis(1500) {
        out.c.inc("liveness_during_faults_checked");
        let pid = crate::common::cid(&peer_id);
        let live = handle.with_chitchat(|c| c.live_nodes().any(|l| l == &pid)).await;
        if !live {
            out.findings.push(Finding::new(&["C19"], "server.liveness_not_evaluated", format!("{what}: three fresh heartbeats of the peer arrived by {:?}, it is still not live at {end_of_script:?}: rounds with failed sends skip their liveness evaluation", syn_times[2])));
        }
    }
    // faults stop: healthy period
    shared.lock().unwrap().mode = 0;
    // let pending delayed sends and burst ticks drain (at most one delayed send per missed tick)
    let drain = DELAY * (script.len() as u32 + 2);
    if everywhere && terminal.is_none() {
        let mut left = drain;
        while left > Duration::ZERO {
            let step = Duration::from_millis(500).min(left);
            tokio::time::sleep(step).await;
            left -= step;
            out.c.inc("user_lock_acquisitions");
            let now = Instant::now() - t0;
            if tokio::time::timeout(Duration::from_millis(1), handle.with_chitchat(|c| c.self_node_state().max_version())).await.is_err() {
                out.findings.push(Finding::new(&["C19"], "server.user_access_blocked", format!("{what}: with_chitchat did not return at t={now:?} while delayed sends were draining (the loop holds the lock across a send)")));
                break;
            }
        }
    } else {
        tokio::time::sleep(drain).await;
    }
    let healthy_from = Instant::now() - t0;
    let hb0 = if terminal.is_none() { Some(hb(&handle).await) } else { None };
    tokio::time::sleep(Duration::from_secs(4)).await;
    let healthy_to = Instant::now() - t0;
    let sends = shared.lock().unwrap().sends.clone();
    out.c.add("sends_logged", sends.len() as u64);
    out.c.add("failed_sends", sends.iter().filter(|s| s.outcome == "err").count() as u64);
    out.c.add("delayed_sends", sends.iter().filter(|s| s.outcome == "delay").count() as u64);
    match terminal {
        None => {
            // (1) later rounds are not stalled, the node keeps heartbeating
            let syns = sends.iter().filter(|s| s.kind == "syn" && s.to == seed_addr && s.at >= healthy_from && s.at <= healthy_to).count();
            if syns < 3 {
                out.findings.push(Finding::new(&["C19"], "server.rounds_stalled", format!("{what}: only {syns} SYNs to the seed in the 4 healthy seconds after the faults stopped (end of script at {end_of_script:?})")));
            }
            let hb1 = hb(&handle).await;
            if Some(hb1) <= hb0 {
                out.findings.push(Finding::new(&["C19"], "server.heartbeat_stopped", format!("{what}: heartbeat {hb0:?} -> {hb1} over 4 healthy seconds")));
            }
            // (2) every injected SYN was answered (the attempt counts, whatever its outcome)
            let answers = sends.iter().filter(|s| s.kind == "synack" && s.to == peer_addr).count();
            if answers < syn_times.len() {
                out.findings.push(Finding::new(&["C19"], "server.syn_unanswered", format!("{what}: {} SYNs injected at {syn_times:?}, {answers} SYN-ACK send attempts", syn_times.len())));
            }
            out.c.add("syns_answered", answers as u64);
            // a user-requested handshake is attempted
            if let Some(t) = gossip_cmd_at {
                if !sends.iter().any(|s| s.kind == "syn" && s.to == addr(30_003) && s.at >= t) {
                    out.findings.push(Finding::new(&["C19"], "server.gossip_command_ignored", format!("{what}: gossip({}) requested at {t:?}, no SYN was sent there", addr(30_003))));
                }
            }
            // the termination watcher must still be pending
            let tw = tokio::time::timeout(Duration::from_millis(1), handle.termination_watcher()).await;
            if tw.is_ok() {
                out.findings.push(Finding::new(&["C19"], "server.terminated_without_cause", format!("{what}: the loop ended ({tw:?}) although no fatal error, panic or shutdown happened")));
            }
            // a final shutdown always completes
            let r = tokio::time::timeout(Duration::from_secs(30), handle.shutdown()).await;
            match r {
                Ok(Ok(())) => out.c.inc("clean_shutdowns"),
                Ok(Err(e)) => out.findings.push(Finding::new(&["C19"], "server.shutdown_error", format!("{what}: final shutdown returned {e:#}"))),
                Err(_) => out.findings.push(Finding::new(&["C19"], "server.shutdown_hangs", format!("{what}: final shutdown did not complete within 30 virtual seconds"))),
            }
        }
        Some((kind, at)) => {
            // SYNs injected before the terminal event and not stuck behind it must have been answered: the recv
            // queue is FIFO, so every SYN injected before the terminal event was received before it.
            let answers = sends.iter().filter(|s| s.kind == "synack" && s.to == peer_addr).count();
            if kind != 3 && answers < syn_times.len() {
                out.findings.push(Finding::new(&["C19"], "server.syn_unanswered", format!("{what}: {} SYNs injected before the fatal event, {answers} SYN-ACK send attempts", syn_times.len())));
            }
            // the loop ended and says so
            let tw = tokio::time::timeout(Duration::from_millis(1), handle.termination_watcher()).await;
            match (kind, tw) {
                (_, Err(_)) => out.findings.push(Finding::new(&["C19"], "server.termination_not_reported", format!("{what}: terminal event kind {kind} at {at:?} but the termination watcher is still pending {:?} later", healthy_to - at))),
                (1, Ok(Ok(()))) | (2, Ok(Ok(()))) => out.findings.push(Finding::new(&["C19"], "server.termination_reported_ok", format!("{what}: a fatal recv error / panic was reported as a clean exit"))),
                (3, Ok(Err(_))) if ambiguous => out.c.inc("shutdown_raced_by_fatal_event"),
                (3, Ok(Err(e))) => out.findings.push(Finding::new(&["C19"], "server.shutdown_reported_error", format!("{what}: shutdown reported {e:#}"))),
                _ => out.c.inc("terminations_reported"),
            }
            // nothing is sent after the loop ended (allowing the sends already in progress)
            let last = sends.iter().map(|s| s.at).max().unwrap_or_default();
            if last > at + drain {
                out.findings.push(Finding::new(&["C19"], "server.sends_after_termination", format!("{what}: a send at {last:?}, long after the terminal event at {at:?}")));
            }
            let r = tokio::time::timeout(Duration::from_secs(30), handle.shutdown()).await;
            match (kind, r) {
                (_, Err(_)) => out.findings.push(Finding::new(&["C19"], "server.shutdown_hangs", format!("{what}: shutdown() did not complete"))),
                (3, Ok(Err(_))) if ambiguous => {}
                (3, Ok(Err(e))) => out.findings.push(Finding::new(&["C19"], "server.shutdown_error", format!("{what}: {e:#}"))),
                (1, Ok(Ok(()))) | (2, Ok(Ok(()))) => out.findings.push(Finding::new(&["C19"], "server.join_reports_ok", format!("{what}: the task of a loop that died reports success"))),
                _ => {}
            }
        }
    }
}


/// Persistently slow transport: EVERY send takes `delay` (longer than the gossip interval) for the whole run, so every
/// round overruns its interval. The peer's fresh heartbeats reach the node's state once per virtual second through the
/// shared lock (exact arrival instants, no contention with the loop's own receive branch). A slow round is still a
/// whole round: it ends with its liveness evaluation, so the steadily heartbeating peer is live at the end; the
/// node's own heartbeat keeps rising and user access never blocks.
pub async fn slow_rounds_scenario(delay: Duration, horizon: u64, out: &mut ScOut) {
    let what = format!("slow transport: every send takes {delay:?} during {horizon} virtual seconds (gossip interval 1 s)");
    let seed_addr = addr(30_001);
    let peer_addr = addr(30_002);
    let shared = Arc::new(Mutex::new(Shared { mode: 2, sends: vec![], t0: Some(Instant::now()), delay: Some(delay) }));
    let (_tx, rx) = mpsc::unbounded_channel();
    let transport = ScriptedTransport { shared: shared.clone(), rx: Mutex::new(Some(rx)) };
    let handle = match spawn_chitchat(server_config(30_000, seed_addr), vec![], &transport).await {
        Ok(h) => h,
        Err(e) => {
            out.findings.push(Finding::new(&["C19"], "server.spawn_failed", format!("{what}: {e:#}")));
            return;
        }
    };
    let peer_id = WId { node_id: "peer".into(), generation: 0, addr: peer_addr };
    let pid = crate::common::cid(&peer_id);
    tokio::time::sleep(Duration::from_millis(500)).await;
    let mut peer_hb = 3u64;
    for k in 0..horizon {
        peer_hb += 1;
        let bytes = syn_bytes("c", &[WDigestEntry { id: peer_id.clone(), heartbeat: peer_hb, last_gc: 0, max_version: 0 }]);
        out.c.inc("user_lock_acquisitions");
        let r = tokio::time::timeout(Duration::from_millis(1), handle.with_chitchat(|c| {
            let _ = crate::craft::feed(c, &bytes);
        }))
        .await;
        if r.is_err() {
            out.findings.push(Finding::new(&["C19"], "server.user_access_blocked", format!("{what}: with_chitchat did not return at t={k}.5 s (the loop holds the lock across a slow send)")));
            return;
        }
        out.c.inc("heartbeats_fed_through_the_lock");
        tokio::time::sleep(Duration::from_secs(1)).await;
    }
    let (live, own_hb) = handle
        .with_chitchat(|c| {
            let live = c.live_nodes().any(|l| l == &pid);
            (live, u64::from(c.self_node_state().heartbeat()))
        })
        .await;
    out.c.inc("slow_transport_scenarios");
    if !live {
        out.findings.push(Finding::new(&["C19"], "server.liveness_not_evaluated", format!("{what}: the peer's heartbeat rose once per second for {horizon} s, it is still not live: slow rounds never reach (or skip) their liveness evaluation")));
    } else {
        out.c.inc("liveness_during_faults_checked");
    }
    // a round sends to at most peer + seed: it lasts at most 2 x delay, so at least horizon / (2 x delay) - 1 rounds began
    let min_rounds = (horizon as f64 / (2.0 * delay.as_secs_f64())).floor() as u64;
    if own_hb + 1 < min_rounds {
        out.findings.push(Finding::new(&["C19"], "server.rounds_stalled", format!("{what}: own heartbeat is {own_hb} after {horizon} s, at least {} rounds must have begun", min_rounds.saturating_sub(1))));
    }
    // a shutdown requested WHILE every round still overruns its interval (a tick is always already due): the command
    // branch of the loop is ready together with the tick branch at every iteration; a fair choice takes it with
    // probability >= 1/3 each time, so 100 iterations (each at most 2 x delay long) miss it with probability < 1e-17
    let _ = handle.initiate_shutdown();
    out.c.inc("shutdown_requests");
    let patience = delay * 200;
    match tokio::time::timeout(patience, handle.termination_watcher()).await {
        Ok(_) => out.c.inc("shutdowns_completed_under_a_slow_transport"),
        Err(_) => out.findings.push(Finding::new(&["C19"], "server.shutdown_starved", format!("{what}: a shutdown requested while the rounds overrun their interval did not complete within {patience:?} of virtual time (about 100 rounds): the command branch of the loop is never served"))),
    }
    shared.lock().unwrap().mode = 0;
    match tokio::time::timeout(Duration::from_secs(60), handle.shutdown()).await {
        Ok(Ok(())) => out.c.inc("clean_shutdowns"),
        Ok(Err(e)) => out.findings.push(Finding::new(&["C19"], "server.shutdown_error", format!("{what}: final shutdown returned {e:#}"))),
        Err(_) => out.findings.push(Finding::new(&["C19"], "server.shutdown_hangs", format!("{what}: final shutdown did not complete within 60 virtual seconds"))),
    }
    out.c.add("sends_logged", shared.lock().unwrap().sends.len() as u64);
}

/// A burst of user-requested handshakes queued without yielding, immediately followed by a shutdown request: every
/// command is served in order (each requested SYN is attempted) and the shutdown completes, however long the queue.
pub async fn gossip_burst_then_shutdown(burst: usize, slow: bool, out: &mut ScOut) {
    let what = format!("{burst} gossip() requests queued at once, then shutdown(){}", if slow { " (every send takes 2.5 s)" } else { "" });
    let shared = Arc::new(Mutex::new(Shared { mode: if slow { 2 } else { 0 }, sends: vec![], t0: Some(Instant::now()), delay: None }));
    let (_tx, rx) = mpsc::unbounded_channel();
    let transport = ScriptedTransport { shared: shared.clone(), rx: Mutex::new(Some(rx)) };
    let handle = match spawn_chitchat(server_config(30_000, addr(30_001)), vec![], &transport).await {
        Ok(h) => h,
        Err(e) => {
            out.findings.push(Finding::new(&["C19"], "server.spawn_failed", format!("{what}: {e:#}")));
            return;
        }
    };
    tokio::time::sleep(Duration::from_millis(500)).await;
    let target = addr(30_003);
    let mut refused = 0usize;
    for _ in 0..burst {
        if handle.gossip(target).is_err() {
            refused += 1;
        }
    }
    out.c.add("gossip_commands", burst as u64);
    out.c.inc("shutdown_requests");
    // every queued send may take 2.5 s, plus the rounds that come due in between
    let patience = Duration::from_secs(60) + DELAY * (3 * burst as u32 + 10);
    match tokio::time::timeout(patience, handle.shutdown()).await {
        Ok(Ok(())) => out.c.inc("clean_shutdowns"),
        Ok(Err(e)) => out.findings.push(Finding::new(&["C19"], "server.shutdown_error", format!("{what}: shutdown returned {e:#}"))),
        Err(_) => out.findings.push(Finding::new(&["C19"], "server.shutdown_hangs", format!("{what}: the shutdown request did not complete within {patience:?} of virtual time ({refused} of the gossip requests were refused)"))),
    }
    let served = shared.lock().unwrap().sends.iter().filter(|s| s.kind == "syn" && s.to == target).count();
    out.c.add("sends_logged", shared.lock().unwrap().sends.len() as u64);
    if served + refused < burst && out.findings.is_empty() {
        out.findings.push(Finding::new(&["C19"], "server.gossip_command_ignored", format!("{what}: only {served} of the {burst} requested SYNs were attempted before the shutdown ({refused} requests were refused)")));
    }
}

/// C17 at the caller: the pools the real gossip round hands to the selection function. `nl` peers keep heartbeating
/// (fed through the shared lock once per virtual second), `nd` peers fall silent after 5 s: they are evaluated dead,
/// later scheduled for deletion (half the dead-node grace period) and finally forgotten. Before every round the
/// harness reads the node's live / dead / known sets; the SYN destinations of that round (scripted transport) must
/// obey the statement for exactly those sets.
pub async fn pools_scenario(nl: usize, nd: usize, grace_s: u64, seed_is_member: bool, out: &mut ScOut) {
    let what = format!("server pools: {nl} heartbeating peers, {nd} peers silent after 5 s{}, dead-node grace {grace_s} s", if seed_is_member { " (the first of them IS the seed: a member at the seed's address)" } else { "" });
    let seed_addr = addr(30_001);
    let self_addr = addr(30_000);
    let shared = Arc::new(Mutex::new(Shared { mode: 0, sends: vec![], t0: Some(Instant::now()), delay: None }));
    let (_tx, rx) = mpsc::unbounded_channel();
    let transport = ScriptedTransport { shared: shared.clone(), rx: Mutex::new(Some(rx)) };
    let mut cfg = server_config(30_000, seed_addr);
    if (nl + nd) % 2 == 1 {
        // the node's own address is also configured as a seed (a common deployment: one seed list for everybody), and
        // one seed is given by name: the seed set is then re-resolved and re-published every 60 s
        cfg.seed_nodes.push(self_addr.to_string());
        cfg.seed_nodes.push("localhost:30001".to_string());
        // ... and the node binds the wildcard address while advertising 127.0.0.1 (bind and advertised address differ)
        cfg.listen_addr = "0.0.0.0:30000".parse().unwrap();
    }
    if (nl + nd) % 4 == 2 {
        // a seed given by a name that does not resolve next to the literal one: the periodic refresh must keep the literal
        // seed in the set (an isolated node still contacts it after the first refresh)
        cfg.seed_nodes.push("seed-that-does-not-resolve.invalid:30001".to_string());
    }
    // every send fails during rounds 8..16 in a third of the scenarios (attempts are logged whatever their outcome): a
    // failed send to one target must not take the rest of the round with it
    let failing_sends = (nl + nd) % 3 == 0;
    cfg.failure_detector_config = FailureDetectorConfig { phi_threshold: 3.0, sampling_window_size: 10, max_interval: Duration::from_secs(2), initial_interval: Duration::from_secs(1), dead_node_grace_period: Duration::from_secs(grace_s) };
    let handle = match spawn_chitchat(cfg, vec![], &transport).await {
        Ok(h) => h,
        Err(e) => {
            out.findings.push(Finding::new(&["C17"], "server.spawn_failed", format!("{what}: {e:#}")));
            return;
        }
    };
    let lives: Vec<WId> = (0..nl).map(|i| WId { node_id: format!("live{i}"), generation: 0, addr: addr(30_010 + i as u16) }).collect();
    // when the seed is no member, the LAST silent peer of larger scenarios is another incarnation of the node itself: same
    // node id and address, another generation (what peers still advertise after a restart)
    let self_namesake = !seed_is_member && nd >= 3;
    let deads: Vec<WId> = (0..nd)
        .map(|i| {
            if self_namesake && i == nd - 1 {
                WId { node_id: "srv30000".to_string(), generation: 7, addr: self_addr }
            } else {
                WId { node_id: format!("dead{i}"), generation: 0, addr: if seed_is_member && i == 0 { seed_addr } else { addr(30_020 + i as u16) } }
            }
        })
        .collect();
    tokio::time::sleep(Duration::from_millis(500)).await;
    let horizon = grace_s + 45;
    let mut hbv = 1u64;
    for k in 0..horizon {
        hbv += 1;
        let mut digest: Vec<WDigestEntry> = lives.iter().map(|id| WDigestEntry { id: id.clone(), heartbeat: hbv, last_gc: 0, max_version: 0 }).collect();
        if k < 5 {
            digest.extend(deads.iter().map(|id| WDigestEntry { id: id.clone(), heartbeat: hbv, last_gc: 0, max_version: 0 }));
        }
        let bytes = syn_bytes("c", &digest);
        if failing_sends {
            shared.lock().unwrap().mode = if (8..16).contains(&k) { 1 } else { 0 };
        }
        let (live, dead, peers, sched, seeds): (Vec<SocketAddr>, Vec<SocketAddr>, Vec<SocketAddr>, usize, Vec<SocketAddr>) = handle
            .with_chitchat(|c| {
                if !digest.is_empty() {
                    let _ = crate::craft::feed(c, &bytes);
                }
                let me = c.self_chitchat_id().clone();
                (
                    c.live_nodes().filter(|i| **i != me).map(|i| i.gossip_advertise_addr).collect(),
                    c.dead_nodes().map(|i| i.gossip_advertise_addr).collect(),
                    c.node_states().keys().filter(|i| **i != me).map(|i| i.gossip_advertise_addr).collect(),
                    c.scheduled_for_deletion_nodes().count(),
                    c.seed_nodes().into_iter().filter(|a| *a != me.gossip_advertise_addr).collect(),
                )
            })
            .await;
        tokio::time::sleep(Duration::from_secs(1)).await;
        // the round of virtual second k+1
        let (lo, hi) = (Duration::from_millis(k * 1000 + 500), Duration::from_millis(k * 1000 + 1500));
        let dests: Vec<SocketAddr> = shared.lock().unwrap().sends.iter().filter(|s| s.kind == "syn" && s.at > lo && s.at <= hi).map(|s| s.to).collect();
        out.c.inc("server_rounds_checked");
        out.c.add("server_round_syns", dests.len() as u64);
        if sched > 0 {
            out.c.inc("server_rounds_with_members_scheduled_for_deletion");
        }
        let ctx = format!("{what}: round at t={}s with live {live:?} dead {dead:?} known {peers:?} ({sched} scheduled for deletion) seeds {seeds:?} sent SYNs to {dests:?}", k + 1);
        if dests.is_empty() {
            out.findings.push(Finding::new(&["C17", "C19"], "pools.no_round", format!("{ctx}: no SYN at all (a seed exists)")));
            break;
        }
        // the literal seed of the configuration belongs to the seed set for the whole run
        let mut seeds = seeds;
        if !seeds.contains(&seed_addr) {
            out.c.inc("server_rounds_where_the_literal_seed_left_the_seed_set");
            seeds.push(seed_addr);
        }
        if failing_sends && (8..16).contains(&k) {
            out.c.inc("server_rounds_with_failing_sends");
        }
        // (the node's own address is a legitimate target only when a known member — another incarnation — sits there)
        if (dests.contains(&self_addr) && !peers.contains(&self_addr)) || dests.iter().any(|d| !peers.contains(d) && !seeds.contains(d)) {
            out.findings.push(Finding::new(&["C17"], "pools.foreign_target", format!("{ctx}: a target is the node itself or in none of the pools")));
        }
        if dests.len() > 5 {
            out.findings.push(Finding::new(&["C17"], "pools.too_many", format!("{ctx}: more than 3 + 1 + 1 targets")));
        }
        if !live.is_empty() {
            // (a dead member at a seed's address may also be the seed pick: only non-seed addresses are counted)
            if dests.iter().filter(|d| dead.contains(d) && !seeds.contains(d)).count() > 1 {
                out.findings.push(Finding::new(&["C17"], "pools.too_many_dead", format!("{ctx}: more than one dead peer")));
            }
        } else if !seeds.is_empty() && !dests.iter().any(|d| seeds.contains(d)) {
            out.findings.push(Finding::new(&["C17"], "pools.seed_not_contacted", format!("{ctx}: no live peer is known and a seed exists, yet no seed is contacted")));
        }
        if dead.len() > live.len() {
            out.c.inc("server_rounds_with_dead_outnumbering_live");
            if !dests.iter().any(|d| dead.contains(d)) {
                out.findings.push(Finding::new(&["C17"], "pools.dead_not_contacted", format!("{ctx}: dead peers outnumber live ones but no dead peer is contacted")));
            }
        }
        if !out.findings.is_empty() {
            break;
        }
    }
    let _ = tokio::time::timeout(Duration::from_secs(30), handle.shutdown()).await;
}

/// The server-level part of C17 (skipped under Miri: it needs the tokio time driver and is covered natively).
pub fn pools_part(args: &Args) -> (Vec<Finding>, Counters) {
    let mut jobs: Vec<(usize, usize, u64, bool)> = vec![];
    let (maxl, maxd) = args.tier.pick((2usize, 3usize), (4usize, 5usize));
    for nl in 0..=maxl {
        for nd in 0..=maxd {
            for g in args.tier.pick(vec![40u64], vec![20, 40, 90]) {
                jobs.push((nl, nd, g, false));
            }
        }
    }
    // the seed itself is a member that died: six silent peers (more than the three regular slots), no live one
    for g in args.tier.pick(vec![40u64], vec![20, 40, 90]) {
        jobs.push((0, 6, g, true));
        jobs.push((0, 7, g, true));
        jobs.push((1, 6, g, true));
    }
    let res = par_run(jobs.len() as u64, args.threads, |i| {
        let rt = paused_rt();
        let (nl, nd, g, sm) = jobs[i as usize];
        let mut out = ScOut { findings: vec![], c: Counters::default() };
        if let Err(p) = catch(|| rt.block_on(pools_scenario(nl, nd, g, sm, &mut out))) {
            out.findings.push(Finding::new(&["harness"], "harness.panic", p));
        }
        Some(out)
    });
    let mut f = vec![];
    let mut c = Counters::default();
    for (_, o) in res {
        c.merge(&o.c);
        f.extend(o.findings);
    }
    c.add("server_pool_scenarios", jobs.len() as u64);
    (f, c)
}

// --------------------------------------------------------------------------- real UDP on loopback

fn free_port() -> u16 {
    let s = std::net::UdpSocket::bind("127.0.0.1:0").unwrap();
    s.local_addr().unwrap().port()
}

/// Garbage, truncated and maximum-size datagrams, sends to a closed port; then a valid SYN must be answered.
pub async fn udp_scenario(seed: u64, round: u64) -> (Vec<Finding>, Counters, Vec<String>) {
    let mut findings = vec![];
    let mut c = Counters::default();
    let mut inconclusive = vec![];
    let port = free_port();
    let closed = free_port(); // nobody listens there: the server's SYNs get ICMP port unreachable
    let closed_addr: SocketAddr = format!("127.0.0.1:{closed}").parse().unwrap();
    let mut cfg = server_config(port, closed_addr);
    // a second seed of the other address family: sending to it from an IPv4 socket fails at once (a failed send)
    cfg.seed_nodes.push(format!("[::1]:{closed}"));
    cfg.chitchat_id = ChitchatId::new(format!("udp{port}"), 0, format!("127.0.0.1:{port}").parse().unwrap());
    cfg.listen_addr = cfg.chitchat_id.gossip_advertise_addr;
    cfg.gossip_interval = Duration::from_millis(50);
    let handle = match spawn_chitchat(cfg, vec![("k".into(), "v".into())], &UdpTransport).await {
        Ok(h) => h,
        Err(e) => {
            inconclusive.push(format!("cannot bind a UDP port on loopback: {e:#}"));
            return (findings, c, inconclusive);
        }
    };
    let server: SocketAddr = format!("127.0.0.1:{port}").parse().unwrap();
    let client = tokio::net::UdpSocket::bind("127.0.0.1:0").await.unwrap();
    let me = client.local_addr().unwrap();
    let mut rng = rng_from(mix3(seed, round, 0xD9));
    let valid = syn_bytes("c", &[WDigestEntry { id: WId { node_id: "client".into(), generation: 0, addr: me }, heartbeat: 1, last_gc: 0, max_version: 0 }]);
    let mut hostile: Vec<Vec<u8>> = vec![b"junk".to_vec(), vec![], vec![0u8; 1], valid[..valid.len() / 2].to_vec(), valid[..4].to_vec()];
    // every short prefix of a valid datagram (cut inside the magic number, the version, the type, the first length field ...)
    for l in 1..=12usize.min(valid.len()) {
        hostile.push(valid[..l].to_vec());
    }
    let mut big = vec![0u8; 65_507];
    big[..2].copy_from_slice(&codec::MAGIC.to_le_bytes());
    big[3] = 1;
    hostile.push(big);
    let mut big2: Vec<u8> = (0..65_507).map(|_| rng.random()).collect();
    big2[..4].copy_from_slice(&[0x53, 0xb0, 0, 2]);
    hostile.push(big2);
    for _ in 0..20 {
        let l = rng.random_range(0..300);
        let mut b: Vec<u8> = (0..l).map(|_| rng.random()).collect();
        if b.len() >= 4 && rng.random_bool(0.7) {
            b[..2].copy_from_slice(&codec::MAGIC.to_le_bytes());
            b[2] = 0;
            b[3] = rng.random_range(0..4);
        }
        hostile.push(b);
    }
    for h in &hostile {
        let _ = client.send_to(h, server).await;
        c.inc("hostile_udp_datagrams");
    }
    // let a few gossip rounds towards the closed port happen (transient ConnectionRefused on recv)
    tokio::time::sleep(Duration::from_millis(200)).await;
    let mut answered = false;
    let mut buf = vec![0u8; 65_536];
    for attempt in 0..5 {
        let _ = client.send_to(&valid, server).await;
        // the server also gossips with us (it learned our address from the digest): skip its SYNs, but every
        // datagram it sends must be exactly one well-formed message
        for _ in 0..8 {
            match tokio::time::timeout(Duration::from_millis(1500), client.recv_from(&mut buf)).await {
                Ok(Ok((n, _))) => {
                    c.inc("udp_datagrams_from_server");
                    match codec::decode_msg(&buf[..n]) {
                        Ok((m, _, used)) => {
                            if used != n {
                                findings.push(Finding::new(&["C19", "C08"], "udp.trailing_bytes_from_server", format!("after failed sends the server emitted a datagram of {n} bytes of which only {used} form a message ({}): stale bytes of an earlier message are being sent", codec::msg_kind(&m))));
                            }
                            if matches!(m, codec::WMsg::SynAck { .. }) && used == n {
                                answered = true;
                                break;
                            }
                        }
                        Err(e) => findings.push(Finding::new(&["C19", "C08"], "udp.malformed_datagram_from_server", format!("the server emitted an undecodable datagram of {n} bytes: {e}"))),
                    }
                }
                _ => break,
            }
        }
        if !findings.is_empty() {
            break;
        }
        if answered {
            c.inc("udp_syns_answered");
            c.add("udp_attempts_needed", attempt + 1);
            break;
        }
    }
    // keep talking for a while: after a failed send (the other-family seed) the next datagram the server emits
    // must still be exactly one well-formed message, whoever it goes to; we see those that come to us
    if findings.is_empty() {
        let until = std::time::Instant::now() + Duration::from_millis(1200);
        let mut k = 0;
        while std::time::Instant::now() < until && k < 200 {
            if k % 4 == 0 {
                let _ = client.send_to(&valid, server).await;
            }
            k += 1;
            match tokio::time::timeout(Duration::from_millis(100), client.recv_from(&mut buf)).await {
                Ok(Ok((n, _))) => {
                    c.inc("udp_datagrams_from_server");
                    match codec::decode_msg(&buf[..n]) {
                        Ok((m, _, used)) if used != n => {
                            findings.push(Finding::new(&["C19", "C08"], "udp.trailing_bytes_from_server", format!("after failed sends the server emitted a datagram of {n} bytes of which only {used} form a message ({}): stale bytes of an earlier message are being sent", codec::msg_kind(&m))));
                            break;
                        }
                        Ok(_) => {}
                        Err(e) => {
                            findings.push(Finding::new(&["C19", "C08"], "udp.malformed_datagram_from_server", format!("the server emitted an undecodable datagram of {n} bytes: {e}")));
                            break;
                        }
                    }
                }
                _ => {}
            }
        }
    }
    let terminated = tokio::time::timeout(Duration::from_millis(10), handle.termination_watcher()).await.ok();
    if let Some(t) = &terminated {
        findings.push(Finding::new(&["C19"], "udp.loop_terminated", format!("after {} hostile datagrams and sends to a closed port the gossip loop ended: {t:?}", hostile.len())));
    } else if !answered {
        inconclusive.push("UDP: a valid SYN got no answer in 5 attempts but the loop did not terminate (loaded machine?)".into());
    }
    let hb0 = handle.with_chitchat(|cc| u64::from(cc.self_node_state().heartbeat())).await;
    tokio::time::sleep(Duration::from_millis(300)).await;
    let hb1 = handle.with_chitchat(|cc| u64::from(cc.self_node_state().heartbeat())).await;
    if terminated.is_none() {
        if hb1 > hb0 {
            c.inc("udp_heartbeat_progress");
        } else {
            inconclusive.push(format!("UDP: heartbeat {hb0} -> {hb1} in 300 ms of wall time"));
        }
    }
    match tokio::time::timeout(Duration::from_secs(10), handle.shutdown()).await {
        Ok(Ok(())) => c.inc("udp_clean_shutdowns"),
        Ok(Err(e)) => {
            if terminated.is_none() {
                findings.push(Finding::new(&["C19"], "udp.shutdown_error", format!("{e:#}")))
            }
        }
        Err(_) => inconclusive.push("UDP: shutdown did not complete within 10 s of wall time".into()),
    }
    (findings, c, inconclusive)
}

fn all_scripts(len: usize) -> Vec<Vec<Ev>> {
    let mut out: Vec<Vec<Ev>> = vec![vec![]];
    for _ in 0..len {
        let mut next = vec![];
        for s in &out {
            for e in ALPHABET {
                let mut t = s.clone();
                t.push(e);
                next.push(t);
            }
        }
        out = next;
    }
    out
}

pub fn check(args: &Args) -> Outcome {
    let mut ev = Evidence::new(args, "fault_enumeration");
    let deadline = Deadline::new(args.tier.pick(220, 3000));
    let seed = args.seed;
    // exhaustive scripts up to length L with every position of a shutdown / user lock
    let maxlen = args.tier.pick(4usize, 6usize);
    let mut jobs: Vec<(Vec<Ev>, Extra)> = vec![];
    for l in 0..=maxlen {
        for s in all_scripts(l) {
            jobs.push((s.clone(), Extra::None));
            if s.contains(&Ev::SendDelay) {
                jobs.push((s.clone(), Extra::UserLockEverywhere));
            }
            for p in 0..l {
                jobs.push((s.clone(), Extra::Shutdown(p)));
                jobs.push((s.clone(), Extra::UserLock(p)));
                if l <= maxlen.saturating_sub(1) {
                    jobs.push((s.clone(), Extra::GossipCmd(p)));
                    jobs.push((s.clone(), Extra::GossipThenShutdown(p)));
                }
            }
        }
    }
    let n_exhaustive = jobs.len();
    // random scripts up to 12 events
    let nr = args.n(10_000, 500_000);
    let mut rng = rng_from(mix(seed, 0xC19));
    for _ in 0..nr {
        let l = rng.random_range(maxlen + 1..=12);
        // fatal events are rare so that long scripts stay alive
        let s: Vec<Ev> = (0..l).map(|_| [Ev::SendOk, Ev::SendErr, Ev::SendErr, Ev::SendDelay, Ev::RecvSyn, Ev::RecvSyn, Ev::SendOk, if rng.random_bool(0.15) { Ev::RecvFatal } else { Ev::RecvSyn }, if rng.random_bool(0.15) { Ev::RecvPanic } else { Ev::SendDelay }][rng.random_range(0..9)]).collect();
        let extra = match rng.random_range(0..5) {
            0 => Extra::None,
            4 => Extra::GossipThenShutdown(rng.random_range(0..l)),
            1 => Extra::Shutdown(rng.random_range(0..l)),
            2 => Extra::GossipCmd(rng.random_range(0..l)),
            _ => Extra::UserLock(rng.random_range(0..l)),
        };
        jobs.push((s, extra));
    }
    if args.has("--udp-only") {
        jobs.clear();
    }
    let res = par_run(jobs.len() as u64, args.threads, |i| {
        if deadline.expired() {
            return None;
        }
        let rt = paused_rt();
        let (s, e) = &jobs[i as usize];
        let mut out = ScOut { findings: vec![], c: Counters::default() };
        let r = catch(|| rt.block_on(scenario(s, *e, &mut out)));
        if let Err(p) = r {
            out.c.inc("harness_panics");
            out.findings.push(Finding::new(&["harness"], "harness.panic", p));
        }
        Some(out)
    });
    let done = res.len();
    let mut violations: Vec<(Finding, Value)> = vec![];
    for (i, out) in res {
        ev.evaluations += 1;
        ev.counters.merge(&out.c);
        ev.distinct.insert(hash_of(&jobs[i as usize]));
        for f in out.findings {
            if f.is_for("C19") {
                violations.push((f, json!({"engine": "E10", "script": format!("{:?}", jobs[i as usize].0), "extra": format!("{:?}", jobs[i as usize].1)})));
            } else if ev.inconclusive.len() < 3 {
                ev.inconclusive.push(format!("scenario {i}: {}", f.detail));
            }
        }
    }
    if done < jobs.len() {
        ev.inconclusive.push(format!("wall-clock watchdog: {} of {} scenarios not run", jobs.len() - done, jobs.len()));
    }
    // persistently slow transport: every round overruns its interval
    if !args.has("--udp-only") {
        for (delay_ms, horizon) in [(1200u64, 30u64), (1500, 30), (2500, 40), (4000, 60)] {
            let rt = paused_rt();
            let mut out = ScOut { findings: vec![], c: Counters::default() };
            if let Err(p) = catch(|| rt.block_on(slow_rounds_scenario(Duration::from_millis(delay_ms), horizon, &mut out))) {
                ev.inconclusive.push(format!("slow-transport scenario: harness panic {p}"));
            }
            ev.evaluations += 1;
            ev.counters.merge(&out.c);
            ev.distinct.insert(mix3(0x510, delay_ms, horizon));
            for f in out.findings {
                violations.push((f, json!({"engine": "E10-slow-transport", "delay_ms": delay_ms, "horizon_s": horizon})));
            }
        }
    }
    // bursts of user commands followed by a shutdown
    if !args.has("--udp-only") {
        for (burst, slow) in [(1usize, false), (31, false), (32, false), (33, false), (200, false), (5_000, false), (40, true)] {
            let rt = paused_rt();
            let mut out = ScOut { findings: vec![], c: Counters::default() };
            if let Err(p) = catch(|| rt.block_on(gossip_burst_then_shutdown(burst, slow, &mut out))) {
                ev.inconclusive.push(format!("gossip-burst scenario: harness panic {p}"));
            }
            ev.evaluations += 1;
            ev.counters.merge(&out.c);
            ev.distinct.insert(mix3(0xB0257, burst as u64, slow as u64));
            for f in out.findings {
                violations.push((f, json!({"engine": "E10-gossip-burst", "burst": burst, "slow_sends": slow})));
            }
        }
    }
    // real UDP on loopback (wall clock; a missing answer without termination is inconclusive, never a violation)
    let rounds = args.tier.pick(2u64, 20u64);
    let rt = tokio::runtime::Builder::new_multi_thread().worker_threads(2).enable_all().build().unwrap();
    for r in 0..rounds {
        let (f, c, inc) = rt.block_on(udp_scenario(seed, r));
        if args.verbose {
            println!("udp round {r}: findings {:?} counters {:?} inconclusive {:?}", f.iter().map(|x| &x.kind).collect::<Vec<_>>(), c.0, inc);
        }
        ev.evaluations += 1;
        ev.counters.merge(&c);
        ev.distinct.insert(mix3(seed, r, 0xD9));
        for x in f {
            violations.push((x, json!({"engine": "E10-udp", "seed": seed, "round": r})));
        }
        ev.inconclusive.extend(inc);
    }
    ev.samples = vec![
        json!({"script": ["SendErr", "RecvSyn", "SendDelay", "RecvSyn", "SendOk"], "extra": "UserLock(2)", "meaning": "sends fail during second 0, a SYN arrives, sends take 2.5 s from second 2 on while the user takes the lock, ..."}),
        json!({"script": format!("{:?}", jobs.last().map(|j| &j.0)), "extra": format!("{:?}", jobs.last().map(|j| &j.1))}),
    ];
    ev.exhaustive = Some(done == jobs.len());
    ev.extra.insert("exhaustive_scope".into(), json!(format!("all scripts of length <= {maxlen} over {{send ok, send error, send delay 2.5 s, recv valid SYN, recv fatal error, recv panics}} x {{no extra, shutdown at every position, user lock at every position}}: {n_exhaustive} scenarios; plus {nr} random scripts of length {}..12", maxlen + 1)));
    ev.rule = "scenario = one real gossip server (spawn_chitchat) on a scripted Transport/Socket under the paused clock; event j happens at virtual second j+0.5 (send modes persist until changed); after the script 4 healthy virtual seconds are observed; distinct = distinct (script, extra) pairs, all non-trivial (every scenario checks the obligations: rounds resume, heartbeat rises, every SYN answered, termination reported, shutdown completes, user access returns within 1 virtual ms); plus real UDP rounds on loopback (27 hostile datagrams incl. 65,507-byte ones, seed = closed port)".into();
    ev.assumptions = vec!["deadlines are in virtual time; the UDP part uses generous wall-clock timeouts and reports a missing answer without termination as inconclusive".into(), "undecodable datagrams can only be injected on the real UDP transport (the Socket trait delivers decoded messages)".into()];
    let nothing = ev.counters.get("sends_logged") == 0;
    Outcome { evidence: ev, violations, nothing_observed: nothing }
}
