//! Shared infrastructure: arguments, PRNG helpers, payload generators, panic capture, parallel
//! runner, evidence and violation reporting.

use std::cell::RefCell;
use std::collections::{BTreeMap, HashSet};
use std::hash::{Hash, Hasher};
use std::net::SocketAddr;
use std::path::PathBuf;
use std::sync::atomic::{AtomicBool, AtomicU64, Ordering};
use std::sync::Mutex;
use std::time::{Duration, Instant};

use chitchat::verif::{MessageView, NodeDigestView};
use chitchat::{ChitchatId, DeletionStatus, VersionedValue};
use rand::prelude::*;
use serde_json::{json, Value};

use crate::codec::{WDigestEntry, WId, WMsg, WOp};

#[derive(Clone, Copy, PartialEq, Eq, Debug)]
pub enum Tier {
    Quick,
    Thorough,
}
impl Tier {
    pub fn name(self) -> &'static str {
        match self {
            Tier::Quick => "quick",
            Tier::Thorough => "thorough",
        }
    }
    pub fn pick<T>(self, q: T, t: T) -> T {
        match self {
            Tier::Quick => q,
            Tier::Thorough => t,
        }
    }
}

#[derive(Clone, Debug)]
pub struct Args {
    pub prop: String,
    pub tier: Tier,
    pub seed: u64,
    pub replay: Option<PathBuf>,
    pub threads: usize,
    /// multiplies every workload size (for experiments; 1.0 in registered commands)
    pub scale: f64,
    pub verbose: bool,
    pub flags: Vec<String>,
}

pub fn parse_args() -> Args {
    let mut it = std::env::args().skip(1);
    let mut prop = String::new();
    let mut tier = match std::env::var("VERIF_TIER").as_deref() {
        Ok("thorough") => Tier::Thorough,
        _ => Tier::Quick,
    };
    let mut seed: u64 = std::env::var("VERIF_SEED").ok().and_then(|s| s.trim().parse().ok()).unwrap_or(1);
    let mut replay = None;
    let mut threads = std::thread::available_parallelism().map(|n| n.get()).unwrap_or(8).min(16);
    let mut scale = std::env::var("VERIF_SCALE").ok().and_then(|s| s.parse().ok()).unwrap_or(1.0);
    let mut verbose = false;
    let mut flags = vec![];
    while let Some(a) = it.next() {
        match a.as_str() {
            "--tier" => {
                tier = match it.next().as_deref() {
                    Some("thorough") => Tier::Thorough,
                    _ => Tier::Quick,
                }
            }
            "--seed" => seed = it.next().and_then(|s| s.parse().ok()).unwrap_or(seed),
            "--replay" => replay = it.next().map(PathBuf::from),
            "--threads" => threads = it.next().and_then(|s| s.parse().ok()).unwrap_or(threads),
            "--scale" => scale = it.next().and_then(|s| s.parse().ok()).unwrap_or(scale),
            "-v" | "--verbose" => verbose = true,
            s if s.starts_with("--") => flags.push(s.to_string()),
            s => {
                if prop.is_empty() {
                    prop = s.to_string()
                } else {
                    flags.push(s.to_string())
                }
            }
        }
    }
    Args { prop, tier, seed, replay, threads: threads.max(1), scale, verbose, flags }
}

impl Args {
    pub fn n(&self, quick: u64, thorough: u64) -> u64 {
        let b = self.tier.pick(quick, thorough) as f64 * self.scale;
        (b as u64).max(1)
    }
    pub fn has(&self, flag: &str) -> bool {
        self.flags.iter().any(|f| f == flag)
    }
}

pub fn verif_dir() -> PathBuf {
    if let Ok(d) = std::env::var("VERIF_DIR") {
        return PathBuf::from(d);
    }
    // the binary lives in <verif>/harness/target/release/
    let exe = std::env::current_exe().unwrap_or_default();
    let mut p = exe.clone();
    for _ in 0..4 {
        p.pop();
    }
    if p.join("properties.jsonl").exists() {
        return p;
    }
    PathBuf::from("/verif")
}

// ------------------------------------------------------------------ hashing / rng

pub fn mix(a: u64, b: u64) -> u64 {
    let mut z = a ^ b.wrapping_mul(0x9E37_79B9_7F4A_7C15).rotate_left(17);
    z = z.wrapping_add(0x9E37_79B9_7F4A_7C15);
    z = (z ^ (z >> 30)).wrapping_mul(0xBF58_476D_1CE4_E5B9);
    z = (z ^ (z >> 27)).wrapping_mul(0x94D0_49BB_1331_11EB);
    z ^ (z >> 31)
}
pub fn mix3(a: u64, b: u64, c: u64) -> u64 {
    mix(mix(a, b), c)
}
pub fn hash_of<T: Hash + ?Sized>(t: &T) -> u64 {
    let mut h = std::collections::hash_map::DefaultHasher::new();
    t.hash(&mut h);
    h.finish()
}
pub fn hash_str(s: &str) -> u64 {
    // FNV-1a 64 followed by a finalizer (stable across runs, unlike RandomState)
    let mut h: u64 = 0xcbf29ce484222325;
    for b in s.as_bytes() {
        h ^= *b as u64;
        h = h.wrapping_mul(0x100000001b3);
    }
    mix(h, s.len() as u64)
}
pub fn rng_from(seed: u64) -> StdRng {
    StdRng::seed_from_u64(seed)
}

// ------------------------------------------------------------------ payloads

/// Near-incompressible valid UTF-8 (about 7.9 bits/byte order-0): zstd stores such blocks raw.
pub fn hi_entropy(rng: &mut StdRng, byte_len: usize) -> String {
    let mut s = String::with_capacity(byte_len);
    while s.len() < byte_len {
        let rem = byte_len - s.len();
        let r: f64 = rng.random();
        let c = if rem == 1 || r < 0.62 {
            char::from_u32(rng.random_range(0..128)).unwrap()
        } else if rem == 2 || r < 0.80 {
            char::from_u32(rng.random_range(0x80..0x800)).unwrap()
        } else if rem == 3 || r < 0.93 {
            loop {
                let c = rng.random_range(0x800..0x10000u32);
                if let Some(c) = char::from_u32(c) {
                    break c;
                }
            }
        } else {
            char::from_u32(rng.random_range(0x10000..0x110000)).unwrap()
        };
        s.push(c);
    }
    debug_assert_eq!(s.len(), byte_len);
    s
}
/// Uniform 7-bit content (compresses a little: 7 bits of entropy per byte).
pub fn ascii7(rng: &mut StdRng, byte_len: usize) -> String {
    (0..byte_len).map(|_| char::from_u32(rng.random_range(0..128)).unwrap()).collect()
}
pub fn printable(rng: &mut StdRng, byte_len: usize) -> String {
    (0..byte_len).map(|_| char::from_u32(rng.random_range(32..127)).unwrap()).collect()
}
pub fn englishy(rng: &mut StdRng, byte_len: usize) -> String {
    const WORDS: [&str; 12] = ["gossip ", "node ", "the ", "cluster ", "state ", "version ", "alive ", "key ", "value ", "dead ", "heartbeat ", "of "];
    let mut s = String::with_capacity(byte_len + 10);
    while s.len() < byte_len {
        s.push_str(WORDS[rng.random_range(0..WORDS.len())]);
    }
    s.truncate(byte_len);
    s
}
pub fn constant(byte_len: usize) -> String {
    "x".repeat(byte_len)
}
/// Payload of a given class: 0 constant, 1 english, 2 printable, 3 ascii7, 4 high-entropy utf8.
pub fn payload(rng: &mut StdRng, class: u8, len: usize) -> String {
    match class {
        0 => constant(len),
        1 => englishy(rng, len),
        2 => printable(rng, len),
        3 => ascii7(rng, len),
        _ => hi_entropy(rng, len),
    }
}

// ------------------------------------------------------------------ chitchat helpers

pub fn st_code(v: &VersionedValue) -> u8 {
    match v.status {
        DeletionStatus::Set => 0,
        DeletionStatus::Deleted(_) => 1,
        DeletionStatus::DeleteAfterTtl(_) => 2,
    }
}
pub fn st_instant(v: &VersionedValue) -> Option<tokio::time::Instant> {
    match v.status {
        DeletionStatus::Set => None,
        DeletionStatus::Deleted(t) | DeletionStatus::DeleteAfterTtl(t) => Some(t),
    }
}
pub fn wid(id: &ChitchatId) -> WId {
    WId { node_id: id.node_id.clone(), generation: id.generation_id, addr: id.gossip_advertise_addr }
}
pub fn cid(id: &WId) -> ChitchatId {
    ChitchatId::new(id.node_id.clone(), id.generation, id.addr)
}
pub fn addr(port: u16) -> SocketAddr {
    ([127, 0, 0, 1], port).into()
}

/// Converts the plain-data view of a message decoded by the REAL decoder into the independent
/// codec's message type, so that both decoders can be compared with `==`.
pub fn view_to_wmsg(v: &MessageView) -> WMsg {
    fn dg(d: &[NodeDigestView]) -> Vec<WDigestEntry> {
        d.iter()
            .map(|e| WDigestEntry { id: wid(&e.chitchat_id), heartbeat: e.heartbeat, last_gc: e.last_gc_version, max_version: e.max_version })
            .collect()
    }
    fn ops(d: &chitchat::verif::DeltaView) -> Vec<WOp> {
        let mut out = vec![];
        for nd in &d.node_deltas {
            out.push(WOp::Node { id: wid(&nd.chitchat_id), last_gc: nd.last_gc_version, from: nd.from_version_excluded });
            for kv in &nd.key_values {
                out.push(WOp::Kv { key: kv.key.clone(), value: kv.value.clone(), version: kv.version, status: kv.status });
            }
            if nd.key_values.is_empty() && nd.max_version > 0 {
                out.push(WOp::SetMax(nd.max_version));
            }
        }
        out
    }
    match v {
        MessageView::Syn { cluster_id, digest } => WMsg::Syn { cluster_id: cluster_id.clone(), digest: dg(digest) },
        MessageView::SynAck { digest, delta } => WMsg::SynAck { digest: dg(digest), ops: ops(delta) },
        MessageView::Ack { delta } => WMsg::Ack { ops: ops(delta) },
        MessageView::BadCluster => WMsg::BadCluster,
    }
}

// ------------------------------------------------------------------ panic capture

thread_local! {
    static LAST_PANIC: RefCell<Option<String>> = const { RefCell::new(None) };
    static CAPTURE: RefCell<bool> = const { RefCell::new(false) };
}

pub fn install_panic_hook() {
    let default = std::panic::take_hook();
    std::panic::set_hook(Box::new(move |info| {
        let capturing = CAPTURE.with(|c| *c.borrow());
        if capturing {
            let msg = if let Some(s) = info.payload().downcast_ref::<&str>() {
                s.to_string()
            } else if let Some(s) = info.payload().downcast_ref::<String>() {
                s.clone()
            } else {
                "<non-string panic>".to_string()
            };
            let loc = info.location().map(|l| format!("{}:{}", l.file(), l.line())).unwrap_or_default();
            LAST_PANIC.with(|p| *p.borrow_mut() = Some(format!("{msg} @ {loc}")));
        } else {
            default(info);
        }
    }));
}

/// Runs `f`, turning a panic into `Err(message @ file:line)`.
pub fn catch<T>(f: impl FnOnce() -> T) -> Result<T, String> {
    let prev = CAPTURE.with(|c| std::mem::replace(&mut *c.borrow_mut(), true));
    let r = std::panic::catch_unwind(std::panic::AssertUnwindSafe(f));
    CAPTURE.with(|c| *c.borrow_mut() = prev);
    match r {
        Ok(v) => Ok(v),
        Err(_) => Err(LAST_PANIC.with(|p| p.borrow_mut().take()).unwrap_or_else(|| "<panic>".into())),
    }
}

// ------------------------------------------------------------------ runtime / parallel runner

pub fn paused_rt() -> tokio::runtime::Runtime {
    tokio::runtime::Builder::new_current_thread().enable_time().start_paused(true).build().expect("runtime")
}

pub struct Deadline {
    start: Instant,
    limit: Duration,
    fired: AtomicBool,
}
impl Deadline {
    pub fn new(secs: u64) -> Self {
        Deadline { start: Instant::now(), limit: Duration::from_secs(secs), fired: AtomicBool::new(false) }
    }
    pub fn expired(&self) -> bool {
        if self.start.elapsed() > self.limit {
            self.fired.store(true, Ordering::Relaxed);
            true
        } else {
            false
        }
    }
    pub fn fired(&self) -> bool {
        self.fired.load(Ordering::Relaxed)
    }
}

/// Runs jobs 0..n on `threads` threads; `f(job)` returns `None` when skipped (deadline).
pub fn par_run<T: Send>(n: u64, threads: usize, f: impl Fn(u64) -> Option<T> + Sync) -> Vec<(u64, T)> {
    let next = AtomicU64::new(0);
    let out: Mutex<Vec<(u64, T)>> = Mutex::new(Vec::new());
    std::thread::scope(|s| {
        for _ in 0..threads.min(n.max(1) as usize) {
            s.spawn(|| {
                let mut local = Vec::new();
                loop {
                    let i = next.fetch_add(1, Ordering::Relaxed);
                    if i >= n {
                        break;
                    }
                    // a panic that escapes a job (not inside a monitored step) must not take the process down
                    match catch(|| f(i)) {
                        Ok(Some(r)) => local.push((i, r)),
                        Ok(None) => {}
                        Err(p) => {
                            let mut jp = JOB_PANICS.lock().unwrap();
                            if jp.len() < 50 {
                                jp.push(format!("job {i}: {p}"));
                            }
                        }
                    }
                }
                out.lock().unwrap().extend(local);
            });
        }
    });
    let mut v = out.into_inner().unwrap();
    v.sort_by_key(|(i, _)| *i);
    v
}

// ------------------------------------------------------------------ findings / evidence

#[derive(Clone, Debug)]
pub struct Finding {
    /// property ids this finding refutes
    pub props: Vec<&'static str>,
    /// short machine-readable kind, e.g. "exact.mismatch"
    pub kind: String,
    pub detail: String,
    /// if Some(id): matches the signature of an open known finding
    pub known: Option<&'static str>,
}
impl Finding {
    pub fn new(props: &[&'static str], kind: &str, detail: String) -> Self {
        Finding { props: props.to_vec(), kind: kind.to_string(), detail, known: None }
    }
    pub fn is_for(&self, prop: &str) -> bool {
        self.props.iter().any(|p| *p == prop)
    }
}

#[derive(Default, Clone, Debug)]
pub struct Counters(pub BTreeMap<String, u64>);
impl Counters {
    pub fn add(&mut self, k: &str, n: u64) {
        if n > 0 || !self.0.contains_key(k) {
            *self.0.entry(k.to_string()).or_default() += n;
        }
    }
    pub fn inc(&mut self, k: &str) {
        *self.0.entry(k.to_string()).or_default() += 1;
    }
    pub fn max(&mut self, k: &str, n: u64) {
        let e = self.0.entry(k.to_string()).or_default();
        *e = (*e).max(n);
    }
    pub fn get(&self, k: &str) -> u64 {
        self.0.get(k).copied().unwrap_or(0)
    }
    pub fn merge(&mut self, o: &Counters) {
        for (k, v) in &o.0 {
            if k.starts_with("max_") {
                self.max(k, *v);
            } else {
                *self.0.entry(k.clone()).or_default() += *v;
            }
        }
    }
}

pub struct Evidence {
    pub property_id: String,
    pub tier: Tier,
    pub seed: u64,
    pub level: &'static str,
    pub evaluations: u64,
    pub distinct: HashSet<u64>,
    pub rule: String,
    pub samples: Vec<Value>,
    pub counters: Counters,
    pub assumptions: Vec<String>,
    pub inconclusive: Vec<String>,
    pub known_findings: Vec<String>,
    pub exhaustive: Option<bool>,
    pub extra: serde_json::Map<String, Value>,
    pub start: Instant,
}

impl Evidence {
    pub fn new(args: &Args, level: &'static str) -> Self {
        Evidence {
            property_id: args.prop.clone(),
            tier: args.tier,
            seed: args.seed,
            level,
            evaluations: 0,
            distinct: HashSet::new(),
            rule: String::new(),
            samples: vec![],
            counters: Counters::default(),
            assumptions: vec![],
            inconclusive: vec![],
            known_findings: vec![],
            exhaustive: None,
            extra: serde_json::Map::new(),
            start: Instant::now(),
        }
    }
    pub fn sample(&mut self, v: Value) {
        if self.samples.len() < 6 {
            self.samples.push(v);
        }
    }
    pub fn write(&self, violations: u64) {
        if NO_EVIDENCE.load(Ordering::Relaxed) {
            return;
        }
        let mut cov = serde_json::Map::new();
        cov.insert("evaluations".into(), json!(self.evaluations));
        cov.insert("distinct_nontrivial".into(), json!(self.distinct.len() as u64));
        cov.insert("rule".into(), json!(self.rule));
        cov.insert("samples".into(), json!(self.samples));
        if let Some(e) = self.exhaustive {
            cov.insert("exhaustive".into(), json!(e));
        }
        cov.insert("observed".into(), json!(self.counters.0));
        cov.insert("inconclusive".into(), json!(self.inconclusive));
        cov.insert("known_findings_hit".into(), json!(self.known_findings));
        for (k, v) in &self.extra {
            cov.insert(k.clone(), v.clone());
        }
        let doc = json!({
            "property_id": self.property_id,
            "tier": self.tier.name(),
            "seed": self.seed,
            "level": self.level,
            "coverage": Value::Object(cov),
            "assumptions": self.assumptions,
            "wall_s": (self.start.elapsed().as_secs_f64() * 1000.0).round() / 1000.0,
            "violations": violations,
        });
        let dir = verif_dir().join("evidence");
        let _ = std::fs::create_dir_all(&dir);
        let path = dir.join(format!("{}.json", self.property_id));
        if let Err(e) = std::fs::write(&path, serde_json::to_string_pretty(&doc).unwrap()) {
            eprintln!("cannot write evidence {path:?}: {e}");
        }
    }
}

/// Result of one check: violations (each with a replay document), evidence, verdict.
pub struct Outcome {
    pub evidence: Evidence,
    /// (finding, replay document)
    pub violations: Vec<(Finding, Value)>,
    /// true when not a single trigger event of the property was observed
    pub nothing_observed: bool,
}

static REPLAY_SEQ: AtomicU64 = AtomicU64::new(0);
/// panics that escaped a parallel job
pub static JOB_PANICS: Mutex<Vec<String>> = Mutex::new(Vec::new());
/// Panics of the crate under test while it processed a datagram handed to it through `craft::feed`.
pub static FEED_PANICS: Mutex<Vec<String>> = Mutex::new(Vec::new());
/// set by --no-evidence (sanitizer passes run the same engines without touching the evidence files)
pub static NO_EVIDENCE: AtomicBool = AtomicBool::new(false);

pub fn write_replay(prop: &str, seed: u64, doc: &Value) -> PathBuf {
    if NO_EVIDENCE.load(Ordering::Relaxed) {
        return PathBuf::from("(sanitizer-pass: no replay file written)");
    }
    let dir = verif_dir().join("replays");
    let _ = std::fs::create_dir_all(&dir);
    let n = REPLAY_SEQ.fetch_add(1, Ordering::Relaxed);
    let path = dir.join(format!("{prop}-{seed}-{n}.json"));
    let _ = std::fs::write(&path, serde_json::to_string_pretty(doc).unwrap());
    path
}

/// Prints the verdict lines, writes evidence and replay files, returns the process exit code.
pub fn finish(mut out: Outcome) -> i32 {
    let prop = out.evidence.property_id.clone();
    // panics that escaped a job: inside the crate under test they contradict whatever the workload was checking
    // (the node aborted on an input the check considers legitimate); inside the harness they are a harness error
    let job_panics: Vec<String> = JOB_PANICS.lock().unwrap().clone();
    let mut harness_errors = 0;
    for p in &job_panics {
        if p.contains("chitchat/src/") {
            out.violations.push((Finding::new(&[], "panic.code_under_test", format!("the crate under test panicked while the {prop} workload drove it outside a monitored step: {p}")), json!({"engine": "job", "panic": p})));
        } else {
            harness_errors += 1;
            if out.evidence.inconclusive.len() < 8 {
                out.evidence.inconclusive.push(format!("harness error (panic in the harness itself): {p}"));
            }
        }
    }
    // a panic of the crate under test while processing a datagram of the workload that no monitor turned into a finding
    // (the caller ignored feed's error): still a crash of a node on an input the workload considers worth sending
    if out.violations.is_empty() {
        let fp: Vec<String> = FEED_PANICS.lock().unwrap().clone();
        if let Some(p) = fp.first() {
            out.violations.push((Finding::new(&[], "panic.code_under_test", format!("the crate under test panicked {} time(s) while processing datagrams of the {prop} workload (first: {p})", fp.len())), json!({"engine": "feed", "panic": p})));
        }
    }
    let mut shown = 0;
    let nviol = out.violations.len() as u64;
    // de-duplicate by kind: one replay file per kind is enough, but count all
    let mut seen_kinds: BTreeMap<String, u64> = BTreeMap::new();
    for (f, doc) in &out.violations {
        let c = seen_kinds.entry(f.kind.clone()).or_default();
        *c += 1;
        if *c > 3 || shown >= 12 {
            continue;
        }
        shown += 1;
        let mut d = doc.clone();
        if let Value::Object(m) = &mut d {
            m.insert("property".into(), json!(prop));
            m.insert("kind".into(), json!(f.kind));
            m.insert("detail".into(), json!(f.detail));
            m.entry("seed").or_insert(json!(out.evidence.seed));
            m.insert("tier".into(), json!(out.evidence.tier.name()));
        }
        let path = write_replay(&prop, out.evidence.seed, &d);
        println!("VIOLATION property={} replay={}", prop, path.display());
        println!("  kind={} detail={}", f.kind, truncate(&f.detail, 600));
    }
    if nviol > 0 {
        out.evidence.extra.insert("violation_kinds".into(), json!(seen_kinds));
    }
    for k in &out.evidence.known_findings {
        println!("KNOWN-FINDING: property={} {}", prop, k);
    }
    out.evidence.write(nviol);
    let ev = &out.evidence;
    println!(
        "{} tier={} seed={} evaluations={} distinct_nontrivial={} violations={} inconclusive_parts={} wall={:.1}s",
        prop,
        ev.tier.name(),
        ev.seed,
        ev.evaluations,
        ev.distinct.len(),
        nviol,
        ev.inconclusive.len(),
        ev.start.elapsed().as_secs_f64()
    );
    for (k, v) in &ev.counters.0 {
        println!("  observed {k} = {v}");
    }
    for i in &ev.inconclusive {
        println!("  INCONCLUSIVE: {i}");
    }
    if nviol > 0 {
        1
    } else if harness_errors > 0 {
        println!("INCONCLUSIVE property={prop}: {harness_errors} job(s) ended in a harness error");
        2
    } else if out.nothing_observed {
        println!("INCONCLUSIVE property={prop}: no trigger event of the property was observed");
        2
    } else {
        0
    }
}

pub fn truncate(s: &str, n: usize) -> String {
    if s.len() <= n {
        s.to_string()
    } else {
        let mut e = n;
        while !s.is_char_boundary(e) {
            e -= 1;
        }
        format!("{}…[{} bytes]", &s[..e], s.len())
    }
}

pub fn load_known_findings() -> Value {
    let p = verif_dir().join("known_findings.json");
    std::fs::read_to_string(p).ok().and_then(|s| serde_json::from_str(&s).ok()).unwrap_or(json!({"open": [], "fixed": []}))
}
pub fn known_open(id: &str) -> bool {
    load_known_findings()["open"].as_array().map(|a| a.iter().any(|e| e["id"] == id)).unwrap_or(false)
}
