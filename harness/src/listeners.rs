//! E7 — subscription oracle (C15): recording callbacks, expected calls computed from the
//! statement (`str::starts_with`), for local writes and for replicated inserts.

use std::sync::{Arc, Mutex};

use chitchat::{ChitchatId, KeyChangeEvent, ListenerHandle, Serializable};
use rand::prelude::*;
use serde_json::{json, Value};

use crate::common::*;
use crate::craft::*;

type Log = Arc<Mutex<Vec<(usize, String, String, ChitchatId)>>>;

#[derive(Clone, Copy, Debug, PartialEq)]
enum Life {
    Kept,
    Dropped,
    Forever,
}

struct Subs {
    log: Log,
    prefixes: Vec<String>,
    life: Vec<Life>,
    handles: Vec<Option<ListenerHandle>>,
}

impl Subs {
    fn new() -> Subs {
        Subs { log: Arc::new(Mutex::new(vec![])), prefixes: vec![], life: vec![], handles: vec![] }
    }
    fn subscribe(&mut self, node: &TestNode, prefix: &str) -> usize {
        let i = self.prefixes.len();
        let log = self.log.clone();
        let h = node.cc.subscribe_event(prefix, move |ev: KeyChangeEvent| {
            log.lock().unwrap().push((i, ev.key.to_string(), ev.value.to_string(), ev.node.clone()));
        });
        self.prefixes.push(prefix.to_string());
        self.life.push(Life::Kept);
        self.handles.push(Some(h));
        i
    }
    fn drop_handle(&mut self, i: usize) {
        if self.life[i] == Life::Kept {
            self.handles[i] = None;
            self.life[i] = Life::Dropped;
        }
    }
    fn forever(&mut self, i: usize) {
        if self.life[i] == Life::Kept {
            if let Some(h) = self.handles[i].take() {
                h.forever();
            }
            self.life[i] = Life::Forever;
        }
    }
    /// Calls expected for an accepted non-deleted insert of (key, value) on `node`.
    fn expected(&self, key: &str, value: &str, node: &ChitchatId) -> Vec<(usize, String, String, ChitchatId)> {
        let mut v = vec![];
        for (i, p) in self.prefixes.iter().enumerate() {
            if self.life[i] != Life::Dropped && key.starts_with(p.as_str()) {
                v.push((i, key[p.len()..].to_string(), value.to_string(), node.clone()));
            }
        }
        v
    }
    fn take(&self) -> Vec<(usize, String, String, ChitchatId)> {
        let mut v = std::mem::take(&mut *self.log.lock().unwrap());
        v.sort();
        v
    }
}

pub struct LOut {
    pub findings: Vec<Finding>,
    pub c: Counters,
}

fn compare(subs: &Subs, mut want: Vec<(usize, String, String, ChitchatId)>, what: &str, out: &mut LOut) {
    let got = subs.take();
    want.sort();
    out.c.inc("events_checked");
    out.c.add("calls_expected", want.len() as u64);
    if got != want {
        let show = |v: &Vec<(usize, String, String, ChitchatId)>| v.iter().map(|c| format!("sub#{}[{:?}]({:?},{:?})", c.0, subs.prefixes[c.0], c.1, c.2)).collect::<Vec<_>>().join(" ");
        out.findings.push(Finding::new(&["C15"], "listener.calls", format!("{what}: subscriptions {:?} (life {:?}): calls made: {} ; calls expected: {}", subs.prefixes, subs.life, show(&got), show(&want))));
    }
}

#[derive(Clone, Debug)]
pub enum LEv {
    Sub(String),
    Drop(usize),
    Forever(usize),
    /// (0 set, 1 set_with_ttl, 2 delete, 3 delete_after_ttl, key, value)
    Write(u8, String, String),
}

/// Subscriptions first, then their lifetimes, then the writes.
fn scenario(prefixes: &[(String, Life)], writes: &[(u8, String, String)], local_only: bool, ctx: &str, out: &mut LOut) {
    let mut ev: Vec<LEv> = prefixes.iter().map(|(p, _)| LEv::Sub(p.clone())).collect();
    for (i, (_, life)) in prefixes.iter().enumerate() {
        match life {
            Life::Dropped => ev.push(LEv::Drop(i)),
            Life::Forever => ev.push(LEv::Forever(i)),
            Life::Kept => {}
        }
    }
    ev.extend(writes.iter().map(|w| LEv::Write(w.0, w.1.clone(), w.2.clone())));
    scenario_events(&ev, local_only, None, ctx, out);
}

/// One scenario: any interleaving of subscribe / drop / forever / write events on a writer and on a replica.
/// `reset_prelude`: the owner has collected a tombstone before the replica's first sync, so that the replica's copy
/// is built by a gossip reset (needs the runtime to advance the paused clock).
fn scenario_events(events: &[LEv], local_only: bool, reset_prelude: Option<&tokio::runtime::Runtime>, ctx: &str, out: &mut LOut) {
    let opts = NodeOpts { tomb_grace: std::time::Duration::from_secs(100), ..Default::default() };
    let mut a = mk_node(simple_id("a", 9700), &opts);
    let mut b = mk_node(simple_id("b", 9701), &opts);
    let mut sa = Subs::new();
    let mut sb = Subs::new();
    if let Some(rt) = reset_prelude {
        a.cc.self_node_state().set("zz-prelude", "1");
        a.cc.self_node_state().delete("zz-prelude");
        rt.block_on(tokio::time::advance(std::time::Duration::from_secs(101)));
        a.cc.verif_gc_keys_marked_for_deletion();
        out.c.inc("scenarios_with_reset_prelude");
    }
    let aid = a.id.clone();
    let mut last_ack: Option<Vec<u8>> = None;
    let mut wi = 0usize;
    // half of the scenarios replicate after every write; the others only after every 2nd / 3rd one (and after the last):
    // the replica then learns several writes at once — a key set and deleted in between arrives as a bare tombstone on a
    // key it never saw, a key deleted and set again arrives as a newer value without the tombstone in between
    let n_writes = events.iter().filter(|e| matches!(e, LEv::Write(..))).count();
    let batch = [1usize, 1, 2, 3][(hash_of(&(ctx, events.len(), n_writes)) % 4) as usize];
    for ev in events {
        let (op, key, value) = match ev {
            LEv::Sub(p) => {
                sa.subscribe(&a, p);
                sb.subscribe(&b, p);
                continue;
            }
            LEv::Drop(i) => {
                if *i < sa.prefixes.len() {
                    sa.drop_handle(*i);
                    sb.drop_handle(*i);
                }
                continue;
            }
            LEv::Forever(i) => {
                if *i < sa.prefixes.len() {
                    sa.forever(*i);
                    sb.forever(*i);
                }
                continue;
            }
            LEv::Write(op, key, value) => (op, key, value),
        };
        wi += 1;
        let what = format!("{ctx} events {:?} write#{wi} op{op} key {key:?} value {value:?}", events.iter().map(|e| match e { LEv::Sub(p) => format!("sub({p:?})"), LEv::Drop(i) => format!("drop#{i}"), LEv::Forever(i) => format!("forever#{i}"), LEv::Write(o, k, _) => format!("w{o}({k:?})") }).collect::<Vec<_>>());
        // what is visible before decides whether the write is effective
        let before = a.cc.node_state(&aid).and_then(|ns| ns.get_versioned(key).map(|v| (v.value.clone(), st_code(v))));
        let r = catch(|| {
            let ns = a.cc.self_node_state();
            match op {
                0 => ns.set(key, value),
                1 => ns.set_with_ttl(key, value),
                2 => ns.delete(key),
                _ => ns.delete_after_ttl(key),
            }
        });
        if let Err(p) = r {
            out.findings.push(Finding::new(&["C15"], "listener.panic", format!("{what}: local write panicked: {p}")));
            return;
        }
        let effective_insert = match op {
            0 => before.as_ref().map(|b| !(b.0 == *value && b.1 == 0)).unwrap_or(true),
            1 => before.as_ref().map(|b| !(b.0 == *value && b.1 == 2)).unwrap_or(true),
            _ => false,
        };
        let want = if effective_insert { sa.expected(key, value, &aid) } else { vec![] };
        // the statement speaks of keys set "to a new value": a write that keeps the value and only changes the
        // status (e.g. set on a TTL-marked key) may or may not notify
        let same_value_other_status = effective_insert && before.as_ref().map(|b| b.0 == *value).unwrap_or(false);
        if same_value_other_status {
            let got = sa.take();
            let mut w = want.clone();
            w.sort();
            out.c.inc("events_checked");
            out.c.inc("same_value_status_changes");
            if !got.is_empty() && got != w {
                out.findings.push(Finding::new(&["C15"], "listener.calls", format!("{what} (local, value unchanged): calls made {got:?} are neither none nor the expected {w:?}")));
            }
        } else {
            compare(&sa, want, &format!("{what} (local)"), out);
        }
        if local_only {
            continue;
        }
        if wi % batch != 0 && wi != n_writes {
            out.c.inc("writes_batched_before_replication");
            continue;
        }
        // replicate to b: expected = entries of a whose version changed on b and are not deleted
        let before_b: std::collections::BTreeMap<String, u64> = b.cc.node_state(&aid).map(|ns| ns.key_values_including_deleted().map(|(k, v)| (k.to_string(), v.version)).collect()).unwrap_or_default();
        // every fourth write reaches the replica through the external catch-up entry point instead of gossip: only the
        // entries that are newer than the replica's may notify (the others are "updates ignored as stale")
        if wi % 4 == 2 && b.cc.node_state(&aid).is_some() {
            let (kvs, mv, gc) = {
                let ns = a.cc.node_state(&aid).unwrap();
                (ns.key_values_including_deleted().map(|(k, v)| (k.to_string(), v.clone())).collect::<Vec<_>>(), ns.max_version(), ns.last_gc_version())
            };
            if let Err(p) = catch(|| b.cc.reset_node_state_if_update(&aid, kvs.into_iter(), mv, gc)) {
                out.findings.push(Finding::new(&["C15", "C18"], "listener.catchup_panic", format!("{what}: {p}")));
                return;
            }
            let mut want = vec![];
            if let Some(ns) = b.cc.node_state(&aid) {
                for (k, v) in ns.key_values_including_deleted() {
                    if before_b.get(k) != Some(&v.version) && st_code(v) != 1 {
                        want.extend(sb.expected(k, &v.value, &aid));
                    }
                }
            }
            out.c.inc("catch_up_replications");
            compare(&sb, want, &format!("{what} (external catch-up)"), out);
            continue;
        }
        let syn = b.cc.verif_create_syn_message().serialize_to_vec();
        let r = catch(|| -> Result<Vec<u8>, String> {
            let synack = feed(&mut a.cc, &syn)?.ok_or("no synack")?;
            let ack = feed(&mut b.cc, &synack.1)?.ok_or("no ack")?;
            feed(&mut a.cc, &ack.1)?;
            Ok(synack.1)
        });
        let synack = match r {
            Ok(Ok(x)) => x,
            Ok(Err(e)) => {
                out.findings.push(Finding::new(&["C15", "C08"], "listener.handshake", format!("{what}: {e}")));
                return;
            }
            Err(p) => {
                out.findings.push(Finding::new(&["C15", "C04"], "listener.replication_panic", format!("{what}: replication panicked: {p}")));
                return;
            }
        };
        let mut want = vec![];
        if let Some(ns) = b.cc.node_state(&aid) {
            for (k, v) in ns.key_values_including_deleted() {
                if before_b.get(k) != Some(&v.version) && st_code(v) != 1 {
                    want.extend(sb.expected(k, &v.value, &aid));
                }
            }
        }
        out.c.inc("replications");
        compare(&sb, want, &format!("{what} (replicated)"), out);
        // a duplicate of the same SYN-ACK is a stale update: no call
        if wi % 3 == 0 {
            let _ = catch(|| feed(&mut b.cc, &synack));
            compare(&sb, vec![], &format!("{what} (duplicate SYN-ACK)"), out);
            out.c.inc("stale_duplicates");
        }
        if let Some(old) = &last_ack {
            let _ = catch(|| feed(&mut b.cc, old));
            compare(&sb, vec![], &format!("{what} (older SYN-ACK replayed)"), out);
        }
        last_ack = Some(synack);
        // a's own listeners must not fire for the handshake
        compare(&sa, vec![], &format!("{what} (writer during handshake)"), out);
    }
}

fn strings_upto(alpha: &[&str], n: usize) -> Vec<String> {
    let mut out = vec![String::new()];
    let mut frontier = vec![String::new()];
    for _ in 0..n {
        let mut next = vec![];
        for s in &frontier {
            for a in alpha {
                next.push(format!("{s}{a}"));
            }
        }
        out.extend(next.iter().cloned());
        frontier = next;
    }
    out
}

/// Two threads: while thread A is inside a listener callback (a write is being dispatched), thread B drops the handle
/// of ANOTHER subscription. Whatever B's drop does while the registry is busy (wait for it, or defer), once both
/// threads are done the dropped subscription must never be called again.
fn concurrent_drop_scenario(round: u64, out: &mut LOut) {
    use std::sync::atomic::{AtomicUsize, Ordering};
    use std::sync::mpsc;
    let mut node = mk_node(simple_id("n", 9400), &NodeOpts::default());
    let (entered_tx, entered_rx) = mpsc::channel::<()>();
    let (release_tx, release_rx) = mpsc::channel::<()>();
    let release_rx = std::sync::Mutex::new(release_rx);
    let entered_tx = std::sync::Mutex::new(entered_tx);
    let slow_calls = Arc::new(AtomicUsize::new(0));
    let sc = slow_calls.clone();
    let slow = node.cc.subscribe_event("slow:", move |_ev: KeyChangeEvent| {
        // only the first call parks (later writes of this scenario must not block)
        if sc.fetch_add(1, Ordering::SeqCst) == 0 {
            let _ = entered_tx.lock().unwrap().send(());
            let _ = release_rx.lock().unwrap().recv_timeout(std::time::Duration::from_secs(20));
        }
    });
    let fast_calls = Arc::new(AtomicUsize::new(0));
    let fc = fast_calls.clone();
    let fast = node.cc.subscribe_event(if round % 2 == 0 { "fast:" } else { "" }, move |_ev: KeyChangeEvent| {
        fc.fetch_add(1, Ordering::SeqCst);
    });
    let (about_tx, about_rx) = mpsc::channel::<()>();
    std::thread::scope(|sc| {
        let cc = &mut node.cc;
        sc.spawn(move || {
            cc.self_node_state().set("slow:key", "v");
        });
        // A is parked inside the callback
        if entered_rx.recv_timeout(std::time::Duration::from_secs(20)).is_err() {
            out.c.inc("concurrent_drop_scenarios_inconclusive");
            let _ = release_tx.send(());
            return;
        }
        sc.spawn(move || {
            let _ = about_tx.send(());
            drop(fast);
        });
        let _ = about_rx.recv_timeout(std::time::Duration::from_secs(20));
        std::thread::sleep(std::time::Duration::from_millis(20));
        let _ = release_tx.send(());
    });
    // the "" subscription saw the parked write itself (it was still subscribed then): count from here
    let base = fast_calls.load(Ordering::SeqCst);
    node.cc.self_node_state().set("fast:key", "v2");
    node.cc.self_node_state().set("fast:other", "v3");
    let after = fast_calls.load(Ordering::SeqCst);
    out.c.inc("concurrent_drop_scenarios");
    if after != base {
        out.findings.push(Finding::new(&["C15"], "listener.dropped_handle_called", format!("concurrent drop round {round}: a handle dropped (by another thread) while a write was being dispatched was called {} more time(s) by later writes", after - base)));
    }
    drop(slow);
}

/// Two threads, no timing assumption: thread B drops twenty thousand handles of a prefix nobody writes to (each drop takes
/// the registry's write lock for a moment) while thread A performs writes that a kept subscription on "" must see —
/// every single one, however the two interleave.
fn concurrent_registry_stress(writes: usize, out: &mut LOut) {
    use std::sync::atomic::{AtomicUsize, Ordering};
    let mut node = mk_node(simple_id("n", 9401), &NodeOpts::default());
    let seen = Arc::new(AtomicUsize::new(0));
    let sc = seen.clone();
    let _kept = node.cc.subscribe_event("", move |_ev: KeyChangeEvent| {
        sc.fetch_add(1, Ordering::Relaxed);
    });
    let mut handles: Vec<chitchat::ListenerHandle> = (0..20_000).map(|_| node.cc.subscribe_event("zz-unrelated", |_ev: KeyChangeEvent| {})).collect();
    std::thread::scope(|sc| {
        let cc = &mut node.cc;
        let a = sc.spawn(move || {
            for i in 0..writes {
                cc.self_node_state().set(format!("k{i}"), "v");
            }
        });
        sc.spawn(move || {
            while let Some(h) = handles.pop() {
                drop(h);
                if a.is_finished() {
                    break;
                }
            }
        });
    });
    let got = seen.load(Ordering::Relaxed);
    out.c.inc("concurrent_registry_stress_runs");
    out.c.add("writes_during_registry_churn", writes as u64);
    if got != writes {
        out.findings.push(Finding::new(&["C15"], "listener.calls_lost_under_contention", format!("{writes} effective local writes were made while another thread dropped handles of an unrelated prefix; the kept subscription on \"\" was called {got} times")));
    }
}

pub fn check(args: &Args) -> Outcome {
    let mut ev = Evidence::new(args, "exploration");
    let deadline = Deadline::new(args.tier.pick(200, 3000));
    let alpha = ["a", "b", "é", "😀"];
    let miri = args.has("--miri");
    let maxlen = if miri { 1 } else { 3usize };
    let strings = strings_upto(&alpha, maxlen);
    let ns = strings.len() as u64;
    let local_only = args.has("--local-only") || miri;
    // exhaustive part: every (prefix, key) pair, with the prefix alone, and with a deterministic companion set
    let res = par_run(ns, args.threads, |pi| {
        if deadline.expired() {
            return None;
        }
        let rt = paused_rt();
        let _g = rt.enter();
        let mut out = LOut { findings: vec![], c: Counters::default() };
        let p = &strings[pi as usize];
        for (ki, k) in strings.iter().enumerate() {
            let writes = vec![(0u8, k.clone(), "v1".to_string()), ((ki % 2) as u8, k.clone(), "v2".to_string()), (2, k.clone(), String::new()), (1, k.clone(), "v2".to_string()), (1, k.clone(), "v2".to_string()), (3, k.clone(), String::new())];
            scenario(&[(p.clone(), Life::Kept)], &writes, local_only || ki % 2 == 1, &format!("prefix {p:?}"), &mut out);
            // companion set: the prefix, "", the first character of the key, the key itself, a sibling, a dropped one, a forever one
            let first: String = k.chars().next().map(|c| c.to_string()).unwrap_or_default();
            let set = vec![(p.clone(), Life::Kept), (String::new(), Life::Kept), (first, Life::Forever), (k.clone(), Life::Kept), (format!("{k}a"), Life::Kept), (p.clone(), Life::Dropped), (String::new(), Life::Dropped), (p.clone(), Life::Kept)];
            scenario(&set, &writes[..2], local_only || ki % 3 != 0, &format!("companion set of prefix {p:?}"), &mut out);
            out.c.add("prefix_key_pairs", 1);
            if out.findings.len() > 3 {
                break;
            }
        }
        Some(out)
    });
    let complete = res.len() as u64 == ns;
    let mut violations: Vec<(Finding, Value)> = vec![];
    // a handle dropped by another thread while a dispatch is in progress
    {
        let rt = paused_rt();
        let _g = rt.enter();
        let mut out = LOut { findings: vec![], c: Counters::default() };
        for r in 0..if miri { 1 } else { args.tier.pick(6u64, 40u64) } {
            concurrent_drop_scenario(r, &mut out);
        }
        if !miri {
            for _ in 0..args.tier.pick(3, 12) {
                concurrent_registry_stress(60_000, &mut out);
            }
        }
        ev.counters.merge(&out.c);
        if out.c.get("concurrent_drop_scenarios_inconclusive") > 0 {
            ev.inconclusive.push("concurrent-drop scenario: the dispatching thread never entered the callback".into());
        }
        for f in out.findings {
            violations.push((f, json!({"engine": "E7", "part": "concurrent-drop"})));
        }
    }
    for (i, out) in res {
        ev.counters.merge(&out.c);
        ev.evaluations += out.c.get("prefix_key_pairs");
        for f in out.findings {
            if f.is_for("C15") {
                violations.push((f, json!({"engine": "E7", "part": "exhaustive", "prefix": strings[i as usize]})));
            }
        }
    }
    for i in 0..ev.evaluations {
        ev.distinct.insert(mix(i, 0xE7));
    }
    // every order of subscribe / drop / forever / write events of length <= 5 over two prefixes (ids of dropped
    // handles must never be confused with those of live ones), followed by two writes; every 5th one on a replica
    // whose copy is built by a gossip reset
    let order_alpha: Vec<LEv> = vec![LEv::Sub(String::new()), LEv::Sub("a".into()), LEv::Drop(0), LEv::Drop(1), LEv::Drop(2), LEv::Forever(0), LEv::Forever(1), LEv::Write(0, "a".into(), String::new())];
    let olen = if miri { 2 } else { 5u32 };
    let na = order_alpha.len() as u64;
    let total_orders: u64 = (1..=olen).map(|l| na.pow(l)).sum();
    let res = par_run(total_orders.div_ceil(512), args.threads, |chunk| {
        if deadline.expired() {
            return None;
        }
        let rt = paused_rt();
        let _g = rt.enter();
        let mut out = LOut { findings: vec![], c: Counters::default() };
        for idx in chunk * 512..((chunk + 1) * 512).min(total_orders) {
            // decode idx into (length, digits)
            let mut rest = idx;
            let mut len = 1u32;
            while rest >= na.pow(len) {
                rest -= na.pow(len);
                len += 1;
            }
            let mut evs = vec![];
            let mut nw = 0;
            for _ in 0..len {
                let mut e = order_alpha[(rest % na) as usize].clone();
                rest /= na;
                if let LEv::Write(_, _, v) = &mut e {
                    nw += 1;
                    *v = format!("w{nw}");
                }
                evs.push(e);
            }
            evs.push(LEv::Write(0, "a".into(), "final-a".into()));
            evs.push(LEv::Write(1, "b".into(), "final-b".into()));
            let prelude = idx % 5 == 0 && !local_only;
            scenario_events(&evs, local_only || idx % 2 == 1, if prelude { Some(&rt) } else { None }, "order", &mut out);
            out.c.inc("event_orders");
            if out.findings.len() > 3 {
                break;
            }
        }
        Some(out)
    });
    let orders_complete = res.len() as u64 == total_orders.div_ceil(512);
    for (_, out) in res {
        ev.counters.merge(&out.c);
        ev.evaluations += out.c.get("event_orders");
        for f in out.findings {
            if f.is_for("C15") {
                violations.push((f, json!({"engine": "E7", "part": "event orders"})));
            }
        }
    }
    if !orders_complete {
        ev.inconclusive.push("wall-clock watchdog: event-order enumeration not completed".into());
    }
    // random part: up to 8 prefixes, random lifetimes and subscribe / drop / forever orders, several members' keys
    let nr = if miri { 10 } else { args.n(100_000, 3_000_000) };
    let seed = args.seed;
    let pool = strings_upto(&alpha, 3);
    let res = par_run(nr, args.threads, |i| {
        if deadline.expired() {
            return None;
        }
        let rt = paused_rt();
        let _g = rt.enter();
        let mut rng = rng_from(mix3(seed, i, 0xC15));
        #[allow(unused_mut)]
        let n = rng.random_range(0..=8);
        let set: Vec<(String, Life)> = (0..n).map(|_| (pool[rng.random_range(0..pool.len())].clone(), [Life::Kept, Life::Kept, Life::Dropped, Life::Forever][rng.random_range(0..4)])).collect();
        let nw = rng.random_range(1..8);
        let writes: Vec<(u8, String, String)> = (0..nw).map(|_| ([0u8, 0, 1, 2, 3][rng.random_range(0..5)], pool[rng.random_range(0..pool.len())].clone(), format!("v{}", rng.random_range(0..3)))).collect();
        let mut out = LOut { findings: vec![], c: Counters::default() };
        if i % 2 == 0 {
            scenario(&set, &writes, local_only, &format!("random case {i}"), &mut out);
        } else {
            // interleaved: subscriptions, lifetime changes and writes in random order
            let mut evs: Vec<LEv> = vec![];
            let mut nsub = 0usize;
            let mut wq = writes.clone();
            let mut sq = set.clone();
            while !wq.is_empty() || !sq.is_empty() {
                match rng.random_range(0..4) {
                    0 if !sq.is_empty() => {
                        evs.push(LEv::Sub(sq.remove(0).0));
                        nsub += 1;
                    }
                    1 if nsub > 0 => evs.push(LEv::Drop(rng.random_range(0..nsub))),
                    2 if nsub > 0 && rng.random_bool(0.3) => evs.push(LEv::Forever(rng.random_range(0..nsub))),
                    _ if !wq.is_empty() => {
                        let w = wq.remove(0);
                        evs.push(LEv::Write(w.0, w.1, w.2));
                    }
                    _ => {
                        if !sq.is_empty() {
                            evs.push(LEv::Sub(sq.remove(0).0));
                            nsub += 1;
                        }
                    }
                }
            }
            let prelude = i % 4 == 1 && !local_only;
            scenario_events(&evs, local_only, if prelude { Some(&rt) } else { None }, &format!("random interleaved case {i}"), &mut out);
        }
        Some((out, hash_of(&format!("{set:?}{writes:?}")), if i < 2 { Some(json!({"subscriptions": set.iter().map(|s| format!("{:?}/{:?}", s.0, s.1)).collect::<Vec<_>>(), "writes": writes.iter().map(|w| format!("op{} {:?}={:?}", w.0, w.1, w.2)).collect::<Vec<_>>()})) } else { None }))
    });
    let rdone = res.len() as u64;
    for (i, (out, h, sample)) in res {
        ev.evaluations += 1;
        ev.distinct.insert(h);
        ev.counters.merge(&out.c);
        if let Some(s) = sample {
            ev.samples.push(s);
        }
        for f in out.findings {
            if f.is_for("C15") {
                violations.push((f, json!({"engine": "E7", "part": "random", "seed": seed, "case": i})));
            }
        }
    }
    ev.samples.push(json!({"exhaustive_strings": strings.iter().take(12).collect::<Vec<_>>(), "count": ns}));
    ev.exhaustive = Some(complete);
    if !complete {
        ev.inconclusive.push("wall-clock watchdog: exhaustive part not completed".into());
    }
    if rdone < nr {
        ev.inconclusive.push(format!("wall-clock watchdog: {} random cases not generated", nr - rdone));
    }
    ev.rule = format!("exhaustive: every (prefix, key) pair over all {} strings of length <= {} over {{a, b, é (2 bytes), 😀 (4 bytes)}}, each with the prefix alone and with a companion set of 8 subscriptions (\"\", first character, the key, a sibling, dropped and forever handles, a duplicate prefix), for set / set_with_ttl (new and unchanged value) / delete / delete_after_ttl, locally and replicated through real handshakes incl. duplicate and older SYN-ACKs; random: up to 8 prefixes of length <= 3, random lifetimes, 1-7 writes; distinct = distinct (subscriptions, writes); exhaustive:true refers to the (prefix, key) cross product", ns, maxlen);
    ev.assumptions = vec!["callbacks are recorded through the public Chitchat::subscribe_event".into()];
    let nothing = ev.counters.get("events_checked") == 0;
    Outcome { evidence: ev, violations, nothing_observed: nothing }
}
