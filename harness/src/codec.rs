//! INDEPENDENT implementation of the documented chitchat wire layout.
//!
//! Written from the layout only (magic 45,139 LE, version 0, message tag, digest = u16 count then
//! id / heartbeat / last gc version / max version, delta = blocks `{1|2, u16 len, payload}` ... `0`,
//! ops `0 Node | 1 KeyValue | 2 SetMaxVersion`). It shares no code with the crate under test;
//! only the zstd crate is reused for block payloads.

use std::net::{IpAddr, Ipv4Addr, Ipv6Addr, SocketAddr};

pub const MAGIC: u16 = 45_139;
pub const MAX_DATAGRAM: usize = 65_507;

#[derive(Clone, Debug, PartialEq, Eq, Hash, PartialOrd, Ord)]
pub struct WId {
    pub node_id: String,
    pub generation: u64,
    pub addr: SocketAddr,
}

#[derive(Clone, Debug, PartialEq, Eq)]
pub struct WDigestEntry {
    pub id: WId,
    pub heartbeat: u64,
    pub last_gc: u64,
    pub max_version: u64,
}

#[derive(Clone, Debug, PartialEq, Eq)]
pub enum WOp {
    Node { id: WId, last_gc: u64, from: u64 },
    Kv { key: String, value: String, version: u64, status: u8 },
    SetMax(u64),
}

#[derive(Clone, Debug, PartialEq, Eq)]
pub enum WMsg {
    Syn { cluster_id: String, digest: Vec<WDigestEntry> },
    SynAck { digest: Vec<WDigestEntry>, ops: Vec<WOp> },
    Ack { ops: Vec<WOp> },
    BadCluster,
}

#[derive(Clone, Debug, PartialEq, Eq)]
pub struct WKv {
    pub key: String,
    pub value: String,
    pub version: u64,
    pub status: u8,
}

#[derive(Clone, Debug, PartialEq, Eq)]
pub struct WNodeDelta {
    pub id: WId,
    pub last_gc: u64,
    pub from: u64,
    pub max_version: u64,
    pub kvs: Vec<WKv>,
    pub had_set_max: bool,
}

/// Block statistics of a decoded op stream.
#[derive(Clone, Debug, Default, PartialEq, Eq)]
pub struct BlockInfo {
    pub compressed: usize,
    pub uncompressed: usize,
    pub stream_len: usize,
    pub decompressed_len: usize,
}

// ---------------------------------------------------------------- encoding

fn put_u16(b: &mut Vec<u8>, v: u16) {
    b.push((v & 0xff) as u8);
    b.push((v >> 8) as u8);
}
fn put_u64(b: &mut Vec<u8>, v: u64) {
    for i in 0..8 {
        b.push(((v >> (8 * i)) & 0xff) as u8);
    }
}
fn put_str(b: &mut Vec<u8>, s: &str) {
    assert!(s.len() <= 65_535, "string too long for the layout");
    put_u16(b, s.len() as u16);
    b.extend_from_slice(s.as_bytes());
}
fn put_addr(b: &mut Vec<u8>, a: &SocketAddr) {
    match a.ip() {
        IpAddr::V4(ip) => {
            b.push(4);
            b.extend_from_slice(&ip.octets());
        }
        IpAddr::V6(ip) => {
            b.push(6);
            b.extend_from_slice(&ip.octets());
        }
    }
    put_u16(b, a.port());
}
pub fn put_id(b: &mut Vec<u8>, id: &WId) {
    put_str(b, &id.node_id);
    put_u64(b, id.generation);
    put_addr(b, &id.addr);
}
pub fn id_len(id: &WId) -> usize {
    2 + id.node_id.len() + 8 + 1 + if id.addr.is_ipv4() { 4 } else { 16 } + 2
}
pub fn encode_digest(entries: &[WDigestEntry]) -> Vec<u8> {
    let mut b = Vec::new();
    assert!(entries.len() <= 65_535);
    put_u16(&mut b, entries.len() as u16);
    for e in entries {
        put_id(&mut b, &e.id);
        put_u64(&mut b, e.heartbeat);
        put_u64(&mut b, e.last_gc);
        put_u64(&mut b, e.max_version);
    }
    b
}
pub fn encode_op(b: &mut Vec<u8>, op: &WOp) {
    match op {
        WOp::Node { id, last_gc, from } => {
            b.push(0);
            put_id(b, id);
            put_u64(b, *last_gc);
            put_u64(b, *from);
        }
        WOp::Kv { key, value, version, status } => {
            b.push(1);
            put_str(b, key);
            put_str(b, value);
            put_u64(b, *version);
            b.push(*status);
        }
        WOp::SetMax(v) => {
            b.push(2);
            put_u64(b, *v);
        }
    }
}
pub fn op_len(op: &WOp) -> usize {
    match op {
        WOp::Node { id, .. } => 1 + id_len(id) + 16,
        WOp::Kv { key, value, .. } => 1 + 2 + key.len() + 2 + value.len() + 8 + 1,
        WOp::SetMax(_) => 9,
    }
}

/// How the independent encoder frames the op stream into blocks.
#[derive(Clone, Debug)]
pub enum BlockPlan {
    /// cut every `n` bytes; compress each block when zstd output is not larger.
    Threshold(usize),
    /// cut every `n` bytes; never compress.
    Raw(usize),
    /// cut every `n` bytes; always compress (even when that is larger), as long as it fits u16.
    Zstd(usize),
    /// explicit cut points (byte offsets into the op stream) with alternating compression.
    Cuts(Vec<usize>),
}

pub fn frame_stream(raw: &[u8], plan: &BlockPlan) -> Vec<u8> {
    let mut out = Vec::new();
    let mut pieces: Vec<(&[u8], u8)> = Vec::new(); // 0 auto, 1 raw, 2 zstd
    match plan {
        BlockPlan::Threshold(n) | BlockPlan::Raw(n) | BlockPlan::Zstd(n) => {
            let mode = match plan {
                BlockPlan::Threshold(_) => 0,
                BlockPlan::Raw(_) => 1,
                _ => 2,
            };
            let n = (*n).clamp(1, 65_535);
            for chunk in raw.chunks(n) {
                pieces.push((chunk, mode));
            }
        }
        BlockPlan::Cuts(cuts) => {
            let mut prev = 0usize;
            let mut i = 0u8;
            let mut cs: Vec<usize> = cuts.iter().cloned().filter(|c| *c < raw.len()).collect();
            cs.sort();
            cs.dedup();
            cs.push(raw.len());
            for c in cs {
                if c > prev {
                    for chunk in raw[prev..c].chunks(65_535) {
                        pieces.push((chunk, 1 + (i % 2)));
                        i = i.wrapping_add(1);
                    }
                    prev = c;
                }
            }
        }
    }
    for (chunk, mode) in pieces {
        let compressed = if mode != 1 { zstd::bulk::compress(chunk, 0).ok() } else { None };
        match (mode, compressed) {
            (0, Some(c)) if c.len() <= chunk.len() => {
                out.push(1);
                put_u16(&mut out, c.len() as u16);
                out.extend_from_slice(&c);
            }
            (2, Some(c)) if c.len() <= 65_535 => {
                out.push(1);
                put_u16(&mut out, c.len() as u16);
                out.extend_from_slice(&c);
            }
            _ => {
                out.push(2);
                put_u16(&mut out, chunk.len() as u16);
                out.extend_from_slice(chunk);
            }
        }
    }
    out.push(0);
    out
}

pub fn encode_ops(ops: &[WOp], plan: &BlockPlan) -> Vec<u8> {
    let mut raw = Vec::new();
    for op in ops {
        encode_op(&mut raw, op);
    }
    frame_stream(&raw, plan)
}

pub fn encode_msg(msg: &WMsg, plan: &BlockPlan) -> Vec<u8> {
    let mut b = Vec::new();
    put_u16(&mut b, MAGIC);
    b.push(0);
    match msg {
        WMsg::Syn { cluster_id, digest } => {
            b.push(0);
            b.extend(encode_digest(digest));
            put_str(&mut b, cluster_id);
        }
        WMsg::SynAck { digest, ops } => {
            b.push(1);
            b.extend(encode_digest(digest));
            b.extend(encode_ops(ops, plan));
        }
        WMsg::Ack { ops } => {
            b.push(2);
            b.extend(encode_ops(ops, plan));
        }
        WMsg::BadCluster => b.push(3),
    }
    b
}

// ---------------------------------------------------------------- decoding

pub struct Cur<'a> {
    pub b: &'a [u8],
    pub p: usize,
}
impl<'a> Cur<'a> {
    pub fn new(b: &'a [u8]) -> Self {
        Cur { b, p: 0 }
    }
    fn take(&mut self, n: usize) -> Result<&'a [u8], String> {
        if self.p + n > self.b.len() {
            return Err(format!("short read: need {n} at {} of {}", self.p, self.b.len()));
        }
        let s = &self.b[self.p..self.p + n];
        self.p += n;
        Ok(s)
    }
    fn u8(&mut self) -> Result<u8, String> {
        Ok(self.take(1)?[0])
    }
    fn u16(&mut self) -> Result<u16, String> {
        let s = self.take(2)?;
        Ok(s[0] as u16 | ((s[1] as u16) << 8))
    }
    fn u64(&mut self) -> Result<u64, String> {
        let s = self.take(8)?;
        let mut v = 0u64;
        for i in 0..8 {
            v |= (s[i] as u64) << (8 * i);
        }
        Ok(v)
    }
    fn string(&mut self) -> Result<String, String> {
        let n = self.u16()? as usize;
        let s = self.take(n)?;
        String::from_utf8(s.to_vec()).map_err(|e| format!("utf8: {e}"))
    }
    fn addr(&mut self) -> Result<SocketAddr, String> {
        let v = self.u8()?;
        let ip = match v {
            4 => {
                let s = self.take(4)?;
                IpAddr::V4(Ipv4Addr::new(s[0], s[1], s[2], s[3]))
            }
            6 => {
                let s = self.take(16)?;
                let mut o = [0u8; 16];
                o.copy_from_slice(s);
                IpAddr::V6(Ipv6Addr::from(o))
            }
            x => return Err(format!("ip version {x}")),
        };
        let port = self.u16()?;
        Ok(SocketAddr::new(ip, port))
    }
    fn id(&mut self) -> Result<WId, String> {
        let node_id = self.string()?;
        let generation = self.u64()?;
        let addr = self.addr()?;
        Ok(WId { node_id, generation, addr })
    }
    pub fn rest(&self) -> usize {
        self.b.len() - self.p
    }
}

pub fn decode_digest(c: &mut Cur) -> Result<Vec<WDigestEntry>, String> {
    let n = c.u16()? as usize;
    let mut v = Vec::with_capacity(n.min(4096));
    for _ in 0..n {
        let id = c.id()?;
        let heartbeat = c.u64()?;
        let last_gc = c.u64()?;
        let max_version = c.u64()?;
        v.push(WDigestEntry { id, heartbeat, last_gc, max_version });
    }
    Ok(v)
}

pub fn decode_ops_raw(raw: &[u8]) -> Result<Vec<WOp>, String> {
    let mut c = Cur::new(raw);
    let mut ops = Vec::new();
    while c.rest() > 0 {
        let tag = c.u8()?;
        match tag {
            0 => {
                let id = c.id()?;
                let last_gc = c.u64()?;
                let from = c.u64()?;
                ops.push(WOp::Node { id, last_gc, from });
            }
            1 => {
                let key = c.string()?;
                let value = c.string()?;
                let version = c.u64()?;
                let status = c.u8()?;
                if status > 2 {
                    return Err(format!("status {status}"));
                }
                ops.push(WOp::Kv { key, value, version, status });
            }
            2 => ops.push(WOp::SetMax(c.u64()?)),
            x => return Err(format!("op tag {x}")),
        }
    }
    Ok(ops)
}

pub fn decode_stream(c: &mut Cur) -> Result<(Vec<WOp>, BlockInfo), String> {
    let start = c.p;
    let mut raw = Vec::new();
    let mut info = BlockInfo::default();
    loop {
        let t = c.u8()?;
        match t {
            0 => break,
            1 => {
                let n = c.u16()? as usize;
                let s = c.take(n)?;
                let d = zstd::bulk::decompress(s, 65_535).map_err(|e| format!("zstd: {e}"))?;
                raw.extend_from_slice(&d);
                info.compressed += 1;
            }
            2 => {
                let n = c.u16()? as usize;
                let s = c.take(n)?;
                raw.extend_from_slice(s);
                info.uncompressed += 1;
            }
            x => return Err(format!("block tag {x}")),
        }
    }
    info.stream_len = c.p - start;
    info.decompressed_len = raw.len();
    Ok((decode_ops_raw(&raw)?, info))
}

/// Decodes one datagram. Returns the message, the block info of its delta (if any) and the number
/// of bytes consumed.
pub fn decode_msg(bytes: &[u8]) -> Result<(WMsg, BlockInfo, usize), String> {
    let mut c = Cur::new(bytes);
    let magic = c.u16()?;
    if magic != MAGIC {
        return Err(format!("magic {magic}"));
    }
    let ver = c.u8()?;
    if ver != 0 {
        return Err(format!("version {ver}"));
    }
    let tag = c.u8()?;
    let mut info = BlockInfo::default();
    let msg = match tag {
        0 => {
            let digest = decode_digest(&mut c)?;
            let cluster_id = c.string()?;
            WMsg::Syn { cluster_id, digest }
        }
        1 => {
            let digest = decode_digest(&mut c)?;
            let (ops, i) = decode_stream(&mut c)?;
            info = i;
            WMsg::SynAck { digest, ops }
        }
        2 => {
            let (ops, i) = decode_stream(&mut c)?;
            info = i;
            WMsg::Ack { ops }
        }
        3 => WMsg::BadCluster,
        x => return Err(format!("message tag {x}")),
    };
    Ok((msg, info, c.p))
}

/// Groups an op stream into node deltas following the documented semantics. `strict` rejects what
/// the documentation says a decoder must reject (op without member header, duplicate member,
/// non-increasing key-value versions, a max-version op lowering the max version).
pub fn group_ops(ops: &[WOp]) -> Result<Vec<WNodeDelta>, String> {
    let mut out: Vec<WNodeDelta> = Vec::new();
    for op in ops {
        match op {
            WOp::Node { id, last_gc, from } => {
                if out.iter().any(|n| &n.id == id) {
                    return Err("duplicate member".into());
                }
                out.push(WNodeDelta {
                    id: id.clone(),
                    last_gc: *last_gc,
                    from: *from,
                    max_version: 0,
                    kvs: vec![],
                    had_set_max: false,
                });
            }
            WOp::Kv { key, value, version, status } => {
                let Some(cur) = out.last_mut() else {
                    return Err("key-value without member".into());
                };
                if cur.max_version >= *version {
                    return Err("non-increasing version".into());
                }
                cur.max_version = *version;
                cur.kvs.push(WKv { key: key.clone(), value: value.clone(), version: *version, status: *status });
            }
            WOp::SetMax(v) => {
                let Some(cur) = out.last_mut() else {
                    return Err("max-version without member".into());
                };
                if cur.max_version > *v {
                    return Err("max-version lowers".into());
                }
                cur.max_version = *v;
                cur.had_set_max = true;
            }
        }
    }
    Ok(out)
}

pub fn msg_ops(msg: &WMsg) -> &[WOp] {
    match msg {
        WMsg::SynAck { ops, .. } | WMsg::Ack { ops } => ops,
        _ => &[],
    }
}
pub fn msg_digest(msg: &WMsg) -> &[WDigestEntry] {
    match msg {
        WMsg::Syn { digest, .. } | WMsg::SynAck { digest, .. } => digest,
        _ => &[],
    }
}
pub fn msg_kind(msg: &WMsg) -> &'static str {
    match msg {
        WMsg::Syn { .. } => "syn",
        WMsg::SynAck { .. } => "synack",
        WMsg::Ack { .. } => "ack",
        WMsg::BadCluster => "badcluster",
    }
}
