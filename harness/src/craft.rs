//! Helpers to build real nodes and to drive them with crafted (independently encoded) datagrams.

use std::sync::atomic::{AtomicUsize, Ordering};
use std::sync::Arc;
use std::time::Duration;

use chitchat::{Chitchat, ChitchatConfig, ChitchatId, ChitchatMessage, Deserializable, FailureDetectorConfig, Serializable};
use tokio::sync::watch;

use crate::codec::{self, BlockPlan, WDigestEntry, WId, WMsg, WOp};
use crate::common::*;

pub struct NodeOpts {
    pub cluster: String,
    pub tomb_grace: Duration,
    pub dead_grace: Duration,
    pub phi: f64,
    pub window: usize,
    pub max_interval: Duration,
    pub initial_interval: Duration,
    /// extra liveness predicate `READY == "true"` (it only filters what the watch channel publishes)
    pub predicate: bool,
}
impl Default for NodeOpts {
    fn default() -> Self {
        NodeOpts { cluster: "c".into(), tomb_grace: Duration::from_secs(3600), dead_grace: Duration::from_secs(24 * 3600), phi: 8.0, window: 1000, max_interval: Duration::from_secs(10), initial_interval: Duration::from_secs(5), predicate: false }
    }
}

pub struct TestNode {
    pub cc: Chitchat,
    pub id: ChitchatId,
    pub cb: Arc<AtomicUsize>,
}

pub fn mk_node(id: ChitchatId, o: &NodeOpts) -> TestNode {
    let cb = Arc::new(AtomicUsize::new(0));
    let cb2 = cb.clone();
    let config = ChitchatConfig {
        chitchat_id: id.clone(),
        cluster_id: o.cluster.clone(),
        gossip_interval: Duration::from_secs(1),
        listen_addr: id.gossip_advertise_addr,
        seed_nodes: vec![],
        failure_detector_config: FailureDetectorConfig { phi_threshold: o.phi, sampling_window_size: o.window, max_interval: o.max_interval, initial_interval: o.initial_interval, dead_node_grace_period: o.dead_grace },
        marked_for_deletion_grace_period: o.tomb_grace,
        catchup_callback: Some(Box::new(move || {
            cb2.fetch_add(1, Ordering::SeqCst);
        })),
        extra_liveness_predicate: if o.predicate { Some(Box::new(|ns: &chitchat::NodeState| ns.get("READY") == Some("true"))) } else { None },
    };
    let seeds = watch::channel(Default::default()).1;
    TestNode { cc: Chitchat::with_chitchat_id_and_seeds(config, seeds, vec![]), id, cb }
}

pub fn simple_id(name: &str, port: u16) -> ChitchatId {
    ChitchatId::new(name.to_string(), 0, addr(port))
}

/// Real decode + real processing of a datagram; returns the reply bytes.
/// Err = the datagram did not decode, or decoding / processing / serializing the reply panicked ("PANIC ...").
pub fn feed(cc: &mut Chitchat, bytes: &[u8]) -> Result<Option<(ChitchatMessage, Vec<u8>)>, String> {
    match catch(|| feed_inner(cc, bytes)) {
        Ok(r) => r,
        Err(p) => {
            // remembered globally: a caller that drops this error must not make the panic disappear (see finish())
            let mut fp = FEED_PANICS.lock().unwrap();
            if fp.len() < 16 {
                fp.push(p.clone());
            }
            Err(format!("PANIC in the crate under test: {p}"))
        }
    }
}

fn feed_inner(cc: &mut Chitchat, bytes: &[u8]) -> Result<Option<(ChitchatMessage, Vec<u8>)>, String> {
    let mut cur = bytes;
    let msg = ChitchatMessage::deserialize(&mut cur).map_err(|e| format!("{e:#}"))?;
    let reply = cc.verif_process_message(msg);
    Ok(reply.map(|r| {
        let b = r.serialize_to_vec();
        (r, b)
    }))
}

/// Under Miri the crafted datagrams use uncompressed blocks only (the real decoder then never calls into zstd).
pub static RAW_BLOCKS: std::sync::atomic::AtomicBool = std::sync::atomic::AtomicBool::new(false);
fn plan(n: usize) -> BlockPlan {
    if RAW_BLOCKS.load(Ordering::Relaxed) {
        BlockPlan::Raw(n)
    } else {
        BlockPlan::Threshold(n)
    }
}

pub fn syn_bytes(cluster: &str, digest: &[WDigestEntry]) -> Vec<u8> {
    codec::encode_msg(&WMsg::Syn { cluster_id: cluster.to_string(), digest: digest.to_vec() }, &plan(16_384))
}
pub fn ack_bytes(ops: &[WOp]) -> Vec<u8> {
    codec::encode_msg(&WMsg::Ack { ops: ops.to_vec() }, &plan(60_000))
}
pub fn synack_bytes(digest: &[WDigestEntry], ops: &[WOp]) -> Vec<u8> {
    codec::encode_msg(&WMsg::SynAck { digest: digest.to_vec(), ops: ops.to_vec() }, &plan(60_000))
}

/// Installs a copy of `member` on `cc` through real message processing: a SYN digest creates the
/// member, an ACK carries the state (a reset when `gc > 0`), a second ACK raises the max version
/// when it is above the last key-value.
pub fn install_member(cc: &mut Chitchat, cluster: &str, member: &WId, hb: u64, gc: u64, kvs: &[(String, String, u64, u8)], max_version: u64) -> Result<(), String> {
    let d = vec![WDigestEntry { id: member.clone(), heartbeat: hb, last_gc: 0, max_version: 0 }];
    feed(cc, &syn_bytes(cluster, &d))?;
    let mut ops = vec![WOp::Node { id: member.clone(), last_gc: gc, from: 0 }];
    let mut last = 0;
    for (k, v, ver, st) in kvs {
        ops.push(WOp::Kv { key: k.clone(), value: v.clone(), version: *ver, status: *st });
        last = *ver;
    }
    if kvs.is_empty() && max_version > 0 {
        ops.push(WOp::SetMax(max_version));
        last = max_version;
    }
    if ops.len() > 1 || gc > 0 {
        feed(cc, &ack_bytes(&ops))?;
    }
    if max_version > last {
        let ops = vec![WOp::Node { id: member.clone(), last_gc: gc, from: last }, WOp::SetMax(max_version)];
        feed(cc, &ack_bytes(&ops))?;
    }
    Ok(())
}

/// Checks a node delta list (parsed from an emitted reply) against the sender's state: every node
/// delta carries exactly the sender's entries with versions in (from, max], ascending (C07).
pub fn check_deltas_against_sender(cc: &Chitchat, nodes: &[codec::WNodeDelta], who: &str) -> Vec<Finding> {
    let mut out = vec![];
    let sched: Vec<ChitchatId> = cc.scheduled_for_deletion_nodes().cloned().collect();
    for nd in nodes {
        let id = cid(&nd.id);
        if sched.contains(&id) {
            out.push(Finding::new(&["C07", "C12"], "delta.scheduled_member", format!("{who}: delta includes {id:?} which is scheduled for deletion")));
        }
        let Some(ns) = cc.node_state(&id) else {
            out.push(Finding::new(&["C07", "C03"], "delta.unknown_member", format!("{who}: delta about a member the sender does not hold: {id:?}")));
            continue;
        };
        let mut want: Vec<(u64, String, u64, u8)> = ns.key_values_including_deleted().filter(|(_, v)| v.version > nd.from && v.version <= nd.max_version).map(|(k, v)| (v.version, k.to_string(), hash_str(&v.value), st_code(v))).collect();
        want.sort();
        let got: Vec<(u64, String, u64, u8)> = nd.kvs.iter().map(|kv| (kv.version, kv.key.clone(), hash_str(&kv.value), kv.status)).collect();
        if want != got {
            out.push(Finding::new(&["C07"], "delta.content", format!("{who}: delta for {id:?} from {} to {}: carries versions {:?} but the sender holds {:?} in that range", nd.from, nd.max_version, got.iter().map(|g| g.0).collect::<Vec<_>>(), want.iter().map(|g| g.0).collect::<Vec<_>>())));
        }
        if nd.kvs.iter().any(|kv| kv.version <= nd.from) {
            out.push(Finding::new(&["C07"], "delta.at_or_below_start", format!("{who}: delta for {id:?} carries a version at or below its start {}", nd.from)));
        }
        if nd.last_gc != ns.last_gc_version() {
            out.push(Finding::new(&["C07"], "delta.last_gc", format!("{who}: delta for {id:?} announces watermark {} but the sender's copy has {}", nd.last_gc, ns.last_gc_version())));
        }
        if nd.max_version > ns.max_version() {
            out.push(Finding::new(&["C07", "C03"], "delta.max_version", format!("{who}: delta for {id:?} max version {} above the sender's copy {}", nd.max_version, ns.max_version())));
        }
    }
    out
}
