//! E9 — external catch-up oracle (C18) on the public `reset_node_state_if_update`.

use std::collections::{BTreeMap, BTreeSet};
use std::time::Duration;

use chitchat::{Chitchat, ChitchatId, DeletionStatus, VersionedValue};
use rand::prelude::*;
use serde_json::{json, Value};
use tokio::time::Instant;

use crate::codec::WId;
use crate::common::*;
use crate::craft::*;
use crate::sim::*;

type CopyView = (u64, u64, BTreeMap<String, (u64, u64, u8)>);

fn view(cc: &Chitchat, id: &ChitchatId) -> Option<CopyView> {
    cc.node_state(id).map(|ns| (ns.last_gc_version(), ns.max_version(), ns.key_values_including_deleted().map(|(k, v)| (k.to_string(), (v.version, hash_str(&v.value), st_code(v)))).collect()))
}

#[derive(Clone, Debug)]
pub struct Supplied {
    pub kvs: Vec<(String, String, u64, u8)>,
    pub max_version: u64,
    pub last_gc: u64,
}

fn vv(value: &str, version: u64, st: u8) -> VersionedValue {
    let now = Instant::now();
    VersionedValue { value: value.to_string(), version, status: match st { 0 => DeletionStatus::Set, 1 => DeletionStatus::Deleted(now), _ => DeletionStatus::DeleteAfterTtl(now) } }
}

pub struct COut {
    pub findings: Vec<Finding>,
    pub c: Counters,
}

/// The C18 oracle around one call. `was_removed`: the member had been garbage collected on this node.
pub fn call_and_check(cc: &mut Chitchat, id: &ChitchatId, sup: &Supplied, was_removed: bool, ctx: &str, out: &mut COut) {
    let before = view(cc, id);
    let live_before: BTreeSet<ChitchatId> = cc.live_nodes().cloned().collect();
    let kvs: Vec<(String, VersionedValue)> = sup.kvs.iter().map(|(k, v, ver, st)| (k.clone(), vv(v, *ver, *st))).collect();
    out.c.inc("calls");
    let r = catch(|| cc.reset_node_state_if_update(id, kvs.into_iter(), sup.max_version, sup.last_gc));
    let what = format!("{ctx}: copy before {:?}, supplied (gc {}, mv {}, kvs {:?})", before.as_ref().map(|b| (b.0, b.1, b.2.iter().map(|(k, e)| (k.clone(), e.0)).collect::<Vec<_>>())), sup.last_gc, sup.max_version, sup.kvs.iter().map(|k| (k.0.clone(), k.2, k.3)).collect::<Vec<_>>());
    if let Err(p) = r {
        // the final assert of the entry point is the run-time guard of the frontier monotonicity (C04)
        let props: &[&'static str] = if p.contains("monotonic_property") { &["C18", "C04"] } else { &["C18"] };
        out.findings.push(Finding::new(props, "catchup.panic", format!("{what}: panicked: {p}")));
        return;
    }
    let after = view(cc, id);
    let live_after: BTreeSet<ChitchatId> = cc.live_nodes().cloned().collect();
    if live_after != live_before {
        out.findings.push(Finding::new(&["C18"], "catchup.liveness_changed", format!("{what}: live set changed by the call: {live_before:?} -> {live_after:?}")));
    }
    if was_removed {
        out.c.inc("calls_for_removed_members");
        if after.is_some() {
            out.findings.push(Finding::new(&["C18"], "catchup.recreated_removed_member", format!("{what}: the member had been garbage collected and was re-created by the call")));
        }
        return;
    }
    let empty: CopyView = (0, 0, BTreeMap::new());
    let b = before.clone().unwrap_or(empty.clone());
    let Some(a) = after else {
        if before.is_some() {
            out.findings.push(Finding::new(&["C18"], "catchup.copy_vanished", format!("{what}: the copy disappeared")));
        }
        out.c.inc("calls_unchanged");
        return;
    };
    if (a.0, a.1) < (b.0, b.1) {
        out.findings.push(Finding::new(&["C18", "C04"], "catchup.frontier_decreased", format!("{what}: (gc,mv) ({},{}) -> ({},{})", b.0, b.1, a.0, a.1)));
    }
    if a == b {
        // unchanged (an absent copy may have become an empty one at (0,0): observably the same content)
        out.c.inc("calls_unchanged");
        return;
    }
    out.c.inc("calls_applied");
    // replaced: key set == supplied key set, newer version kept for shared keys
    let mut want: BTreeMap<String, (u64, u64, u8)> = BTreeMap::new();
    for (k, v, ver, st) in &sup.kvs {
        let cand = (*ver, hash_str(v), *st);
        // several supplied entries for one key: the highest version wins (first one on ties)
        let e = want.entry(k.clone()).or_insert(cand);
        if cand.0 > e.0 {
            *e = cand;
        }
    }
    for (k, e) in want.iter_mut() {
        if let Some(old) = b.2.get(k) {
            if old.0 >= e.0 {
                *e = *old;
            }
        }
    }
    if a.2 != want {
        out.findings.push(Finding::new(&["C18"], "catchup.content", format!("{what}: after the call the copy holds {:?}; expected the supplied key set with the newer version of shared keys: {:?}", a.2.iter().map(|(k, e)| (k.clone(), e.0, e.2)).collect::<Vec<_>>(), want.iter().map(|(k, e)| (k.clone(), e.0, e.2)).collect::<Vec<_>>())));
    }
    if a.0 != sup.last_gc {
        out.findings.push(Finding::new(&["C18"], "catchup.watermark", format!("{what}: watermark {} after an applied catch-up with supplied watermark {}", a.0, sup.last_gc)));
    }
    let top = a.2.values().map(|e| e.0).max().unwrap_or(0);
    if a.1 < sup.max_version || a.1 < top {
        out.findings.push(Finding::new(&["C18"], "catchup.max_version", format!("{what}: max version {} after an applied catch-up (supplied {}, highest entry {top})", a.1, sup.max_version)));
    }
}

fn xid(n: u16) -> WId {
    WId { node_id: format!("x{n}"), generation: 0, addr: addr(9800 + n) }
}

/// Existing copy kinds x supplied kinds on stand-alone nodes.
fn matrix_case(rng: &mut StdRng, i: u64) -> (TestNode, ChitchatId, bool, Option<Duration>) {
    let mut node = mk_node(simple_id("n", 9799), &NodeOpts { dead_grace: Duration::from_secs(20), max_interval: Duration::from_secs(2), initial_interval: Duration::from_secs(1), phi: 2.0, ..Default::default() });
    let x = xid((i % 7) as u16);
    let xc = cid(&x);
    let kind = i % 7;
    let gen_kvs = |rng: &mut StdRng, upto: u64, min_tomb: u64| -> Vec<(String, String, u64, u8)> {
        let mut v = vec![];
        let mut ver = 0;
        for k in 0..rng.random_range(0..4) {
            ver += rng.random_range(1..3);
            if ver > upto {
                break;
            }
            let st = if ver > min_tomb { rng.random_range(0..3) } else { 0 };
            v.push((["a", "b", "k", "é"][k % 4].to_string(), if st == 1 { String::new() } else { format!("v{ver}") }, ver, st));
        }
        v
    };
    let mut removed = false;
    let mut advance = None;
    match kind {
        0 => {} // absent
        1 => {
            install_member(&mut node.cc, "c", &x, 3, 0, &[], 0).unwrap(); // empty
        }
        2 => {
            // mid-reset: watermark above max version
            let gc = rng.random_range(3..10);
            let kvs = gen_kvs(rng, gc - 1, u64::MAX);
            let mv = kvs.last().map(|k| k.2).unwrap_or(0);
            install_member(&mut node.cc, "c", &x, 3, gc, &kvs, mv).unwrap();
        }
        3 | 4 => {
            let gc = rng.random_range(0..4);
            let mv = rng.random_range(gc..gc + 8);
            let kvs = gen_kvs(rng, mv, gc);
            install_member(&mut node.cc, "c", &x, 3, gc, &kvs, mv).unwrap();
        }
        6 => {
            // removed, but the copy had been created by a catch-up call and never saw a heartbeat
            let kvs = gen_kvs(rng, 5, 0);
            let kv: Vec<(String, VersionedValue)> = kvs.iter().map(|(k, v, ver, st)| (k.clone(), vv(v, *ver, *st))).collect();
            node.cc.reset_node_state_if_update(&xc, kv.into_iter(), 6, 0);
            node.cc.verif_update_nodes_liveness();
            advance = Some(Duration::from_secs(21));
            removed = true;
        }
        _ => {
            // removed: known, dead for the whole grace period, garbage collected
            install_member(&mut node.cc, "c", &x, 3, 0, &gen_kvs(rng, 5, 0), 5).unwrap();
            node.cc.verif_update_nodes_liveness();
            // (advancing the clock needs an await: done by the caller)
            advance = Some(Duration::from_secs(21));
            removed = true;
        }
    }
    (node, xc, removed, advance)
}

fn random_supplied(rng: &mut StdRng, before: Option<&CopyView>) -> Supplied {
    let (bgc, bmv) = before.map(|b| (b.0, b.1)).unwrap_or((0, 0));
    let consistent = rng.random_bool(0.5);
    let mut kvs = vec![];
    let n = rng.random_range(0..5);
    let mut ver = 0u64;
    for k in 0..n {
        ver = if consistent { ver + rng.random_range(1..4) } else { rng.random_range(0..12) };
        let st = rng.random_range(0..3u8);
        kvs.push((["a", "b", "k", "é", "", "ab"][if consistent { k } else { rng.random_range(0..6) }].to_string(), if st == 1 { String::new() } else { format!("s{ver}") }, ver, st));
    }
    let top = kvs.iter().map(|k| k.2).max().unwrap_or(0);
    let max_version = match rng.random_range(0..6) {
        0 => 0,
        1 => bmv,
        2 => bmv + 1,
        3 => top,
        4 => top + rng.random_range(0..4),
        _ => rng.random_range(0..15),
    };
    let last_gc = match rng.random_range(0..6) {
        0 => 0,
        1 => bgc,
        2 => bgc.saturating_sub(1),
        3 => bgc + 1,
        4 => max_version,
        _ => rng.random_range(0..15),
    };
    Supplied { kvs, max_version: if consistent { max_version.max(top) } else { max_version }, last_gc }
}

async fn run_matrix(seed: u64, i: u64) -> COut {
    let mut out = COut { findings: vec![], c: Counters::default() };
    let mut rng = rng_from(mix3(seed, i, 0xC18));
    let (mut node, xc, removed, advance) = matrix_case(&mut rng, i);
    if let Some(d) = advance {
        tokio::time::advance(d).await;
        node.cc.verif_update_nodes_liveness();
        if node.cc.node_state(&xc).is_some() {
            out.c.inc("removal_setup_failed");
        }
    }
    let was_removed = removed && node.cc.node_state(&xc).is_none();
    for j in 0..rng.random_range(1..4) {
        let before = view(&node.cc, &xc);
        let sup = random_supplied(&mut rng, before.as_ref());
        call_and_check(&mut node.cc, &xc, &sup, was_removed, &format!("matrix case {i} call {j} (existing copy kind {})", i % 7), &mut out);
        if !out.findings.is_empty() {
            break;
        }
        // "never makes a member live by itself": an evaluation right after the call must not report it live
        // unless it already was
        let was_live = node.cc.live_nodes().any(|l| l == &xc);
        node.cc.verif_update_nodes_liveness();
        if !was_live && node.cc.live_nodes().any(|l| l == &xc) {
            out.findings.push(Finding::new(&["C18"], "catchup.made_live", format!("matrix case {i}: the member is live at the evaluation following the call without any heartbeat")));
        }
    }
    // what the call stored lives on: the supplied tombstones (they are kept verbatim, also those at or below the supplied
    // watermark) are collected one grace period later by the ordinary GC pass, which must leave the frontier and every
    // plain entry alone
    if out.findings.is_empty() && i % 2 == 0 {
        if let Some(b) = view(&node.cc, &xc) {
            tokio::time::advance(Duration::from_secs(3601)).await;
            match catch(|| node.cc.verif_gc_keys_marked_for_deletion()) {
                Err(p) => out.findings.push(Finding::new(&["C18", "C06"], "catchup.later_gc_panic", format!("matrix case {i}: the tombstone GC pass after the calls panicked: {p}"))),
                Ok(()) => {
                    out.c.inc("gc_passes_after_catch_up");
                    if let Some(a) = view(&node.cc, &xc) {
                        if (a.0, a.1) < (b.0, b.1) {
                            out.findings.push(Finding::new(&["C18", "C04"], "catchup.later_gc_lowers_frontier", format!("matrix case {i}: one grace period after the catch-up calls the GC pass moved the copy's (gc, mv) from ({},{}) to ({},{})", b.0, b.1, a.0, a.1)));
                        }
                        let lost: Vec<&String> = b.2.iter().filter(|(k, e)| e.2 == 0 && !a.2.contains_key(*k)).map(|(k, _)| k).collect();
                        if !lost.is_empty() {
                            out.findings.push(Finding::new(&["C18", "C06"], "catchup.later_gc_drops_plain_entry", format!("matrix case {i}: the GC pass after the catch-up calls removed plain entries {lost:?}")));
                        }
                    }
                }
            }
        }
    }
    out
}

/// Directed inputs of finding F-4 (all three panicked before the repair).
async fn directed() -> COut {
    let mut out = COut { findings: vec![], c: Counters::default() };
    // (a) copy (wm 9, mv 2) left by a gossip reset, then the same state fetched from the owner
    let mut n = mk_node(simple_id("n", 9799), &NodeOpts::default());
    let x = xid(0);
    let kv = vec![("a".to_string(), "1".to_string(), 1, 0u8), ("b".to_string(), "2".to_string(), 2, 0u8)];
    install_member(&mut n.cc, "c", &x, 3, 9, &kv, 2).unwrap();
    call_and_check(&mut n.cc, &cid(&x), &Supplied { kvs: kv.clone(), max_version: 9, last_gc: 9 }, false, "F-4(a) documented catch-up flow", &mut out);
    // (b) supplied watermark lower than the copy's
    let mut n = mk_node(simple_id("n", 9799), &NodeOpts::default());
    install_member(&mut n.cc, "c", &x, 3, 5, &[("k".to_string(), "v".to_string(), 7, 0)], 7).unwrap();
    call_and_check(&mut n.cc, &cid(&x), &Supplied { kvs: vec![("k".to_string(), "w".to_string(), 9, 0)], max_version: 10, last_gc: 3 }, false, "F-4(b) lower supplied watermark", &mut out);
    // (c) unknown member, no keys, watermark 0
    let mut n = mk_node(simple_id("n", 9799), &NodeOpts::default());
    call_and_check(&mut n.cc, &cid(&x), &Supplied { kvs: vec![], max_version: 3, last_gc: 0 }, false, "F-4(c) unknown member without key-values", &mut out);
    call_and_check(&mut n.cc, &cid(&xid(1)), &Supplied { kvs: vec![], max_version: 0, last_gc: 0 }, false, "unknown member, nothing supplied", &mut out);
    out
}

/// Catch-up calls interleaved with E1 gossip steps: supplied states copied from other nodes' copies.
async fn interleaved(seed: u64, i: u64) -> COut {
    let mut out = COut { findings: vec![], c: Counters::default() };
    let tseed = mix3(seed, i, 0xC18E);
    let mut crng = rng_from(mix(tseed, 7));
    let profile = if i % 2 == 0 { Profile::Replication } else { Profile::Membership };
    let mut cfg = SimCfg::generate(profile, &mut crng);
    cfg.big_values = false;
    cfg.steps = crng.random_range(40..200);
    let steps = cfg.steps;
    let mut w = World::new(cfg, tseed);
    for s in 0..w.slots.len() {
        w.start(s);
    }
    let mut rng = rng_from(mix(tseed, 13));
    for _ in 0..steps {
        if w.aborted {
            break;
        }
        w.random_step().await;
        // findings of the gossip monitors are other properties' business; keep C18/C04 panics only
        if w.findings.iter().any(|f| f.kind == "process.panic") {
            out.findings.push(Finding::new(&["C18"], "catchup.later_gossip_panic", format!("interleaved case {i}: {}", w.findings.iter().find(|f| f.kind == "process.panic").unwrap().detail)));
            break;
        }
        w.findings.clear();
        if rng.random_range(0..6) != 0 {
            continue;
        }
        let ups = w.up_slots();
        if ups.len() < 2 {
            continue;
        }
        let n = ups[rng.random_range(0..ups.len())];
        let src = ups[rng.random_range(0..ups.len())];
        // a member the source knows, not the target's own member
        let cands: Vec<usize> = w.slots[src].snap.copies.keys().cloned().filter(|m| *m != w.slots[n].member).collect();
        if cands.is_empty() {
            continue;
        }
        let m = cands[rng.random_range(0..cands.len())];
        let id = w.members[m].id.clone();
        let sup = {
            let ns = w.slots[src].cc.as_ref().unwrap().node_state(&id).unwrap();
            Supplied { kvs: ns.key_values_including_deleted().map(|(k, v)| (k.to_string(), v.value.clone(), v.version, st_code(v))).collect(), max_version: ns.max_version(), last_gc: ns.last_gc_version() }
        };
        let was_removed = w.slots[n].removed_hb.contains_key(&m) && !w.slots[n].snap.copies.contains_key(&m);
        let cc = w.slots[n].cc.as_mut().unwrap();
        out.c.inc("interleaved_calls");
        call_and_check(cc, &id, &sup, was_removed, &format!("interleaved case {i}: slot{n} catches member{m} up from slot{src}"), &mut out);
        if !out.findings.is_empty() {
            break;
        }
        w.observe(n, Ctx::Other);
        w.findings.clear();
    }
    out
}

/// Catch-up calls as seen by another property (C04: the frontier never moves backwards, whichever
/// entry point moves it). Returns (findings for `prop`, calls made).
pub fn run_for(args: &Args, prop: &str, deadline: &Deadline) -> (Vec<(Finding, Value)>, Counters) {
    let seed = args.seed;
    let nm = args.n(30_000, 1_000_000);
    let ni = args.n(1_500, 100_000);
    let res = par_run(nm + ni, args.threads, |i| {
        if deadline.expired() {
            return None;
        }
        let rt = paused_rt();
        catch(|| if i < nm { rt.block_on(run_matrix(seed, i)) } else { rt.block_on(interleaved(seed, i - nm)) }).ok()
    });
    let mut c = Counters::default();
    let mut v = vec![];
    for (i, out) in res {
        c.merge(&out.c);
        for f in out.findings {
            if f.is_for(prop) {
                v.push((f, json!({"engine": "E9", "seed": seed, "case": i, "matrix_cases": nm})));
            }
        }
    }
    (v, c)
}

pub fn check(args: &Args) -> Outcome {
    let mut ev = Evidence::new(args, "exploration");
    let deadline = Deadline::new(args.tier.pick(200, 3000));
    let miri = args.has("--miri");
    let seed = args.seed;
    let mut violations: Vec<(Finding, Value)> = vec![];
    let rt = paused_rt();
    let d = rt.block_on(directed());
    ev.counters.merge(&d.c);
    ev.evaluations += d.c.get("calls");
    for f in d.findings {
        violations.push((f, json!({"engine": "E9-directed"})));
    }
    let nm = if miri { 30 } else { args.n(100_000, 5_000_000) };
    let ni = if miri { 0 } else { args.n(4_000, 300_000) };
    let res = par_run(nm + ni, args.threads, |i| {
        if deadline.expired() {
            return None;
        }
        let rt = paused_rt();
        Some(catch(|| if i < nm { rt.block_on(run_matrix(seed, i)) } else { rt.block_on(interleaved(seed, i - nm)) }))
    });
    let done = res.len() as u64;
    for (i, r) in res {
        match r {
            Ok(out) => {
                ev.evaluations += out.c.get("calls");
                ev.counters.merge(&out.c);
                ev.distinct.insert(mix(i, out.c.get("calls") * 7 + out.c.get("calls_applied")));
                for f in out.findings {
                    if f.is_for("C18") {
                        violations.push((f, json!({"engine": "E9", "seed": seed, "case": i, "matrix_cases": nm})));
                    }
                }
            }
            Err(p) => {
                ev.counters.inc("harness_panics");
                if ev.inconclusive.len() < 3 {
                    ev.inconclusive.push(format!("case {i}: harness panic {p}"));
                }
            }
        }
    }
    if done < nm + ni {
        ev.inconclusive.push(format!("wall-clock watchdog: {} cases not generated", nm + ni - done));
    }
    ev.samples = vec![
        json!({"directed": "copy (watermark 9, max version 2) after a gossip reset; supplied (max version 9, watermark 9, a@1 b@2)"}),
        json!({"matrix": "existing copy in {absent, empty, mid-reset, behind, ahead, garbage collected, created by catch-up then garbage collected} x supplied {consistent ascending versions | arbitrary keys / versions / statuses, max version in {0, copy's, copy's+1, top, above, random}, watermark in {0, copy's, copy's-1, copy's+1, max version, random}}"}),
    ];
    ev.rule = "case = real node with an existing copy of one of seven kinds (installed through real message processing; 'removed' through the real dead-node GC) + 1-3 calls with seeded supplied states, each followed by a liveness evaluation; interleaved cases = seeded E1 traces in which a node is caught up from another node's real copy every ~6 steps and gossip continues; distinct = distinct (case, outcome) pairs; every call is non-trivial (it is checked against all clauses)".into();
    ev.assumptions = vec!["a copy that was absent and is an empty copy at (0,0) after a refused call counts as unchanged".into(), "the member passed is never the node's own".into()];
    let nothing = ev.counters.get("calls_applied") == 0 || ev.counters.get("calls_unchanged") == 0;
    Outcome { evidence: ev, violations, nothing_observed: nothing }
}
