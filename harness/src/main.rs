//! vharness — runtime monitors for quickwit-oss/chitchat. See /verif/DESIGN.md.
#![allow(dead_code)]
mod catchup;
mod codec;
mod common;
mod craft;
mod e1;
mod fd;
mod hostile;
mod kvmodel;
mod listeners;
mod pairs;
mod select;
mod server;
mod sim;
mod wire;

use common::*;

fn main() {
    install_panic_hook();
    let args = parse_args();
    if args.has("--no-evidence") {
        NO_EVIDENCE.store(true, std::sync::atomic::Ordering::Relaxed);
    }
    if args.has("--miri") {
        craft::RAW_BLOCKS.store(true, std::sync::atomic::Ordering::Relaxed);
    }
    if args.prop == "emit-corpus" {
        hostile::emit_corpus(args.flags.first().map(|s| s.as_str()).unwrap_or("/tmp/corpus"), args.seed);
        return;
    }
    if args.prop.is_empty() {
        eprintln!("usage: vharness <C01..C20> [--tier quick|thorough] [--seed N] [--replay PATH]");
        std::process::exit(2);
    }
    // engines without a dedicated single-case replay: re-run the (deterministic, seeded) check of the recorded
    // seed and tier and report whether a violation of the recorded kind reproduces
    let generic_replay = args.replay.is_some() && !matches!(args.prop.as_str(), "C01" | "C02" | "C03" | "C04" | "C05" | "C09" | "C12" | "C13" | "C14" | "C16" | "C20");
    let mut args = args;
    let mut want_kind: Option<String> = None;
    if generic_replay {
        let doc: serde_json::Value = std::fs::read_to_string(args.replay.as_ref().unwrap()).ok().and_then(|s| serde_json::from_str(&s).ok()).unwrap_or(serde_json::json!({}));
        if let Some(s) = doc["seed"].as_u64() {
            args.seed = s;
        }
        if doc["tier"] == "thorough" {
            args.tier = Tier::Thorough;
        }
        want_kind = doc["kind"].as_str().map(|s| s.to_string());
        println!("replaying {} at seed {} tier {} (looking for kind {:?})", args.prop, args.seed, args.tier.name(), want_kind);
    }
    let code = match args.prop.as_str() {
        "C01" | "C02" | "C03" | "C04" | "C05" | "C12" | "C13" | "C16" | "C20" => {
            if let Some(p) = &args.replay {
                e1::replay(&args, p)
            } else if args.prop == "C04" || args.prop == "C20" {
                finish(pairs::extend_outcome(&args, e1::check(&args)))
            } else {
                finish(e1::check(&args))
            }
        }
        "C14" => {
            if let Some(p) = &args.replay {
                e1::replay(&args, p)
            } else {
                finish(pairs::check_c14(&args))
            }
        }
        "C10" | "C11" => finish(fd::check(&args, &args.prop)),
        "C06" => finish(kvmodel::check(&args)),
        "C15" => finish(listeners::check(&args)),
        "C17" => finish(select::check(&args)),
        "C18" => finish(catchup::check(&args)),
        "C19" => finish(server::check(&args)),
        "C09" => finish(hostile::check(&args)),
        "C07" => finish(wire::check_c07(&args)),
        "C08" => finish(wire::check_c08(&args)),
        other => {
            eprintln!("no check for {other}");
            2
        }
    };
    std::process::exit(code);
}
