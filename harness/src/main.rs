//! vharness — runtime monitors for quickwit-oss/chitchat. See /verif/DESIGN.md.
#![allow(dead_code)]
mod catchup;
mod codec;
mod common;
mod craft;
mod e1;
mod fd;
mod hostile;
mod kvmodel;
mod listeners;
mod pairs;
mod select;
mod server;
mod sim;
mod wire;

use common::*;

fn main() {
    install_panic_hook();
    let args = parse_args();
    if args.prop.is_empty() {
        eprintln!("usage: vharness <C01..C20> [--tier quick|thorough] [--seed N] [--replay PATH]");
        std::process::exit(2);
    }
    let code = match args.prop.as_str() {
        "C01" | "C02" | "C03" | "C04" | "C05" | "C12" | "C13" | "C16" | "C20" => {
            if let Some(p) = &args.replay {
                e1::replay(&args, p)
            } else if args.prop == "C04" || args.prop == "C20" {
                finish(pairs::extend_outcome(&args, e1::check(&args)))
            } else {
                finish(e1::check(&args))
            }
        }
        "C14" => {
            if let Some(p) = &args.replay {
                e1::replay(&args, p)
            } else {
                finish(pairs::check_c14(&args))
            }
        }
        "C10" | "C11" => finish(fd::check(&args, &args.prop)),
        "C06" => finish(kvmodel::check(&args)),
        "C15" => finish(listeners::check(&args)),
        "C17" => finish(select::check(&args)),
        "C18" => finish(catchup::check(&args)),
        "C19" => finish(server::check(&args)),
        "C09" => finish(hostile::check(&args)),
        "C07" => finish(wire::check_c07(&args)),
        "C08" => finish(wire::check_c08(&args)),
        other => {
            eprintln!("no check for {other}");
            2
        }
    };
    std::process::exit(code);
}
