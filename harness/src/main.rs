fn main(){ println!("ok"); }
