//! E1 driver: hostile prefix + fair phase, directed witnesses, and the per-property checks that
//! are decided by the cluster simulator (C01-C05, C12, C13, C16, C20).

use std::collections::{BTreeMap, BTreeSet};
use std::time::Duration;

use rand::prelude::*;
use serde_json::{json, Value};

use crate::codec::{self, WMsg};
use crate::common::*;
use crate::sim::*;

pub struct TraceResult {
    pub findings: Vec<Finding>,
    pub stats: Counters,
    pub hash: u64,
    pub nontrivial: bool,
    pub replay: Value,
    pub steps: u64,
}

#[derive(Clone, Copy)]
pub struct TraceOpts {
    pub fair_phase: bool,
    pub verbose: bool,
    /// Miri mode: membership only (no key-values), short
    pub no_data: bool,
}

fn frontiers(w: &World, slot: usize) -> BTreeMap<usize, (u64, u64)> {
    w.slots[slot].snap.copies.iter().map(|(m, c)| (*m, (c.gc, c.mv))).collect()
}

/// Is there a member whose newer data `a` could deliver to `b` right now (C01 premise)?
fn deliverable(w: &World, a: usize, b: usize) -> Option<usize> {
    let sa = &w.slots[a].snap;
    let sb = &w.slots[b].snap;
    let (sched_a, sched_b) = (w.sched_now(a), w.sched_now(b));
    for (&x, ca) in &sa.copies {
        if sched_a.contains(&x) || sched_b.contains(&x) {
            continue;
        }
        if w.members[x].cluster != w.members[w.slots[b].member].cluster {
            continue;
        }
        let mvb = sb.copies.get(&x).map(|c| c.mv).unwrap_or(0);
        if ca.mv <= mvb {
            continue;
        }
        if !sb.copies.contains_key(&x) {
            if let Some(&rh) = w.slots[b].removed_hb.get(&x) {
                if ca.hb <= rh {
                    continue;
                }
            }
        }
        return Some(x);
    }
    None
}

/// A member `a` advertises that `b` cannot take (scheduled on `b`, or removed and not re-creatable):
/// it is re-sent from scratch on every handshake and can eat the budget (DESIGN §7-h).
fn blocked(w: &World, a: usize, b: usize) -> bool {
    let sa = &w.slots[a].snap;
    let sb = &w.slots[b].snap;
    let (sched_a, sched_b) = (w.sched_now(a), w.sched_now(b));
    for (&y, ca) in &sa.copies {
        if sched_a.contains(&y) {
            continue;
        }
        if sched_b.contains(&y) {
            return true;
        }
        if !sb.copies.contains_key(&y) {
            if let Some(&rh) = w.slots[b].removed_hb.get(&y) {
                if ca.hb <= rh {
                    return true;
                }
            }
        }
    }
    false
}

/// C14 on one leg of an atomic handshake: `reply` was computed by the sender from the digest the
/// receiver put on the wire (`req_digest`), and processed by the unchanged receiver.
fn check_agreement(w: &mut World, recv: usize, send: usize, req_digest: &[codec::WDigestEntry], reply: &WMsg, reply_len: usize, send_pre: &BTreeMap<usize, (u64, u64)>, send_sched: &BTreeSet<usize>, recv_pre: &BTreeMap<usize, CopyS>, leg: &str) {
    let Ok(nodes) = codec::group_ops(codec::msg_ops(reply)) else { return };
    let post = frontiers(w, recv);
    let mut in_reply: BTreeSet<usize> = BTreeSet::new();
    for nd in &nodes {
        let Some(&x) = w.by_id.get(&cid(&nd.id)) else { continue };
        in_reply.insert(x);
        let Some(r0) = req_digest.iter().find(|e| w.by_id.get(&cid(&e.id)) == Some(&x)).map(|e| (e.last_gc, e.max_version)) else {
            // the receiver did not advertise it (unknown or scheduled for deletion there): outside C14's premise
            continue;
        };
        if nd.kvs.is_empty() && !nd.had_set_max {
            // the budget ran out right after the member header: nothing was offered ("space permitting") — which cannot
            // be the reason when every value of the trace is a few bytes long and the reply is far below the limit
            if !w.cfg.big_values && reply_len < 60_000 {
                w.fail(&["C14", "C01"], "agree.nothing_offered", format!("{leg}: slot{send} is ahead of the receiver for member{x} (receiver advertised (gc {}, mv {})) but its reply of {reply_len} bytes carries a bare header for it: neither an entry nor the max version, although there is room", r0.0, r0.1));
            }
            w.stats.inc("c14_node_deltas_cut_to_nothing");
            continue;
        }
        w.stats.inc("c14_node_deltas_checked");
        let reset_expected = r0.0 < nd.last_gc && r0.1 < nd.last_gc;
        if reset_expected {
            w.stats.inc("c14_resets_checked");
        }
        let from_expected = if reset_expected { 0 } else { r0.1 };
        if nd.from != from_expected {
            w.fail(&["C14"], "agree.start_version", format!("{leg}: slot{send} computed a delta for member{x} starting at {} for a receiver at (gc {}, mv {}) while its own watermark is {}: expected start {}", nd.from, r0.0, r0.1, nd.last_gc, from_expected));
        }
        if !reset_expected && nd.max_version <= r0.1 {
            w.fail(&["C14"], "agree.not_ahead", format!("{leg}: slot{send} sent a delta for member{x} up to {} to a receiver already at {}", nd.max_version, r0.1));
        }
        let p = post.get(&x).copied().unwrap_or((0, 0));
        // a wipe is observed, not inferred from the watermark alone: the watermark became the delta's and no old
        // entry survived that the delta does not itself carry
        let wiped = nd.from == 0 && p.0 > r0.0 && p.0 == nd.last_gc && {
            let now = w.slots[recv].snap.copies.get(&x);
            let survivors = recv_pre.get(&x).map(|c0| c0.kvs.iter().filter(|(k, e0)| now.and_then(|c| c.kvs.get(*k)).map(|e1| e1.ver == e0.ver).unwrap_or(false) && !nd.kvs.iter().any(|kv| &kv.key == *k && kv.version == e0.ver)).count()).unwrap_or(0);
            survivors == 0
        };
        if p <= r0 {
            w.fail(&["C14", "C01"], "agree.refused", format!("{leg}: slot{recv} at (gc {}, mv {}) for member{x} did not advance after the delta (gc {}, from {}, max {}) slot{send} computed from its digest; now (gc {}, mv {})", r0.0, r0.1, nd.last_gc, nd.from, nd.max_version, p.0, p.1));
        } else if reset_expected && !wiped {
            w.fail(&["C14"], "agree.reset_not_applied", format!("{leg}: member{x}: reset expected, receiver watermark {} (delta watermark {}) and the copy was not rebuilt", p.0, nd.last_gc));
        } else if !reset_expected && wiped {
            w.fail(&["C14"], "agree.needless_wipe", format!("{leg}: member{x}: receiver at (gc {}, mv {}) was wiped (watermark now {}) although no reset was due (sender watermark {})", r0.0, r0.1, p.0, nd.last_gc));
        }
    }
    // sender ahead => delta non-empty (space permitting: asserted when nothing can be cut)
    if !w.cfg.big_values {
        for e in req_digest {
            let Some(&x) = w.by_id.get(&cid(&e.id)) else { continue };
            if send_sched.contains(&x) {
                continue;
            }
            if let Some(&(_, mvs)) = send_pre.get(&x) {
                if mvs > e.max_version && !in_reply.contains(&x) {
                    w.fail(&["C14", "C01"], "agree.missing_delta", format!("{leg}: slot{send} holds member{x} at max version {mvs}, the receiver advertised {}, but the reply carries nothing for it", e.max_version));
                }
                if mvs <= e.max_version && in_reply.contains(&x) {
                    w.fail(&["C14"], "agree.useless_delta", format!("{leg}: slot{send} holds member{x} at max version {mvs}, the receiver advertised {}, yet a delta was sent", e.max_version));
                }
            }
        }
    }
}

/// Atomic handshake with the C01 per-handshake obligation and the C14 agreement checks.
pub fn monitored_handshake(w: &mut World, a: usize, b: usize) {
    if a == b || !w.slots[a].up || !w.slots[b].up {
        return;
    }
    let pre_a = frontiers(w, a);
    let pre_b = frontiers(w, b);
    let deliver = deliverable(w, a, b).or(deliverable(w, b, a));
    let skip = w.cfg.big_values && (blocked(w, a, b) || blocked(w, b, a));
    let sched_a = w.sched_now(a);
    let a_copies_pre = w.slots[a].snap.copies.clone();
    // the SYN as put on the wire
    let Some(syn) = w.emit_syn(a) else { return };
    let syn_w = codec::decode_msg(&syn).ok().map(|x| x.0);
    let Some(synack) = w.process(b, a, &syn) else { return };
    let b_after_syn = frontiers(w, b);
    let b_copies_after_syn = w.slots[b].snap.copies.clone();
    let sched_b = w.slots[b].snap.sched.clone();
    let synack_w = codec::decode_msg(&synack).ok().map(|x| x.0);
    let ack = w.process(a, b, &synack);
    if let (Some(WMsg::Syn { digest, .. }), Some(sa)) = (&syn_w, &synack_w) {
        check_agreement(w, a, b, digest, sa, synack.len(), &b_after_syn, &sched_b, &a_copies_pre, "SYN-ACK");
    }
    let a_after_synack = frontiers(w, a);
    if let Some(ack) = ack {
        let ack_w = codec::decode_msg(&ack).ok().map(|x| x.0);
        let _ = w.process(b, a, &ack);
        if let (Some(WMsg::SynAck { digest, .. }), Some(ak)) = (&synack_w, &ack_w) {
            let sched_a_now = sched_a.clone();
            check_agreement(w, b, a, digest, ak, ack.len(), &a_after_synack, &sched_a_now, &b_copies_after_syn, "ACK");
        }
    }
    w.stats.inc("monitored_handshakes");
    if let Some(x) = deliver {
        if skip {
            w.stats.inc("c01_obligations_skipped_asymmetric_scheduling");
        } else {
            w.stats.inc("c01_handshake_obligations");
            let post_a = frontiers(w, a);
            let post_b = frontiers(w, b);
            let adv = |pre: &BTreeMap<usize, (u64, u64)>, post: &BTreeMap<usize, (u64, u64)>| post.iter().any(|(m, f)| *f > pre.get(m).copied().unwrap_or((0, 0)));
            if !adv(&pre_a, &post_a) && !adv(&pre_b, &post_b) {
                w.fail(&["C01"], "progress.handshake_without_advance", format!("complete handshake slot{a} <-> slot{b}: member{x} was deliverable but no copy on either side advanced; slot{a} {pre_a:?}, slot{b} {pre_b:?}"));
            }
        }
    }
}

fn converged(w: &World) -> Result<(), String> {
    let ups = w.up_slots();
    for (x, mem) in w.members.iter().enumerate() {
        let peers: Vec<usize> = ups.iter().cloned().filter(|s| w.members[w.slots[*s].member].cluster == mem.cluster).collect();
        if mem.running {
            for &s in &peers {
                match w.slots[s].snap.copies.get(&x) {
                    Some(c) if c.mv == mem.mv => {}
                    other => return Err(format!("running member{x} is at max version {} but slot{s} holds {:?}", mem.mv, other.map(|c| (c.gc, c.mv)))),
                }
            }
        } else {
            let holders: Vec<(usize, u64)> = peers.iter().filter_map(|&s| w.slots[s].snap.copies.get(&x).filter(|_| !w.slots[s].snap.sched.contains(&x)).map(|c| (s, c.mv))).collect();
            if let Some(max) = holders.iter().map(|h| h.1).max() {
                if let Some(h) = holders.iter().find(|h| h.1 != max) {
                    return Err(format!("stopped member{x}: slot{} holds max version {} while another advertised copy is at {max}", h.0, h.1));
                }
            }
        }
    }
    Ok(())
}

pub async fn fair_phase(w: &mut World, assert_convergence: bool) {
    w.cut.clear();
    w.note("--- fair phase: links healed, writes stopped".into());
    // deliver what is still in flight, in random order
    let mut guard = 0;
    while !w.bag.is_empty() && guard < 500 && !w.aborted {
        let i = w.rng.random_range(0..w.bag.len());
        w.deliver(i);
        guard += 1;
    }
    w.bag.clear();
    let entries: usize = w.members.iter().map(|m| m.ledger.values().map(|v| v.len()).sum::<usize>()).sum();
    let bound = 60 + 4 * entries + if w.cfg.dead_grace < Duration::from_secs(3600) { 2 * w.cfg.dead_grace.as_secs() as usize } else { 0 };
    let with_gc = w.seed % 2 == 1;
    // two fair schedules: all ordered pairs per round, or (like the real server) 1-3 random peers per node
    let sparse = (w.seed / 2) % 3 == 0;
    let bound = if sparse { bound * 4 } else { bound };
    let mut rounds = 0usize;
    loop {
        if w.aborted || w.fatal() {
            break;
        }
        rounds += 1;
        w.step_no += 1;
        w.advance(Duration::from_secs(1)).await;
        let ups = w.up_slots();
        if sparse {
            // exactly the real server's round, node by node in random order: own heartbeat, own tombstone GC, SYNs to
            // at most k random peers, own liveness evaluation. A node's GC pass thus falls BETWEEN the handshakes other
            // nodes have with it (a copy that is mid-way through a multi-datagram catch-up gets collected in between).
            let k = 1 + (w.seed % 3) as usize;
            let mut order = ups.clone();
            order.shuffle(&mut w.rng);
            for &a in &order {
                w.beat(a);
                w.gc(a);
                let mut peers: Vec<usize> = ups.iter().cloned().filter(|b| *b != a).collect();
                peers.shuffle(&mut w.rng);
                peers.truncate(k);
                for b in peers {
                    monitored_handshake(w, a, b);
                    if w.aborted {
                        break;
                    }
                }
                w.eval(a);
                if w.aborted {
                    break;
                }
            }
            match converged(w) {
                Ok(()) => break,
                Err(why) => {
                    if rounds >= bound {
                        if assert_convergence {
                            w.fail(&["C01"], "progress.not_converged", format!("after {rounds} fair server-like rounds (bound {bound}): {why}"));
                        } else {
                            w.stats.inc("c01_convergence_not_asserted_and_not_reached");
                        }
                        break;
                    }
                }
            }
            continue;
        }
        for &s in &ups {
            w.beat(s);
            if with_gc {
                w.gc(s);
            }
        }
        let mut pairs = vec![];
        for &a in &ups {
            for &b in &ups {
                if a != b {
                    pairs.push((a, b));
                }
            }
        }
        pairs.shuffle(&mut w.rng);
        for (a, b) in pairs {
            monitored_handshake(w, a, b);
            if w.aborted {
                break;
            }
        }
        for &s in &ups {
            w.eval(s);
        }
        match converged(w) {
            Ok(()) => break,
            Err(why) => {
                if rounds >= bound {
                    if assert_convergence {
                        w.fail(&["C01"], "progress.not_converged", format!("after {rounds} fair rounds (bound {bound}): {why}"));
                    } else {
                        w.stats.inc("c01_convergence_not_asserted_and_not_reached");
                    }
                    break;
                }
            }
        }
    }
    w.stats.add("fair_rounds", rounds as u64);
    if sparse {
        w.stats.inc("fair_phases_with_sparse_schedule");
    }
    w.stats.max("max_fair_rounds", rounds as u64);
    if assert_convergence && !w.fatal() && !w.aborted {
        w.stats.inc("traces_converged");
    }
}

pub async fn run_trace(profile: Profile, seed: u64, idx: u64, opts: TraceOpts) -> TraceResult {
    let mut crng = rng_from(mix(seed, 7));
    let mut cfg = SimCfg::generate(profile, &mut crng);
    if opts.no_data {
        cfg.no_data = true;
        cfg.steps = cfg.steps.min(60);
        cfg.n_slots = cfg.n_slots.min(3);
        cfg.cluster_of.truncate(cfg.n_slots);
    }
    let mut w = World::new(cfg, seed);
    let n = w.slots.len();
    let late = if w.cfg.late_join { Some(n - 1) } else { None };
    for s in 0..n {
        if Some(s) != late || n <= 2 {
            w.start(s);
        }
    }
    let steps = w.cfg.steps;
    for _ in 0..steps {
        if w.aborted || w.fatal() {
            break;
        }
        w.random_step().await;
    }
    if opts.fair_phase && !w.fatal() && !w.aborted {
        // late joiners join before the fair phase so that "every node" includes them
        for s in 0..n {
            if !w.slots[s].started {
                w.start(s);
            }
        }
        let assert_conv = !(w.cfg.profile == Profile::Mixed && w.cfg.big_values);
        fair_phase(&mut w, assert_conv).await;
    }
    if opts.verbose {
        for l in &w.log {
            println!("{l}");
        }
    }
    let replay = w.replay_doc("E1", idx);
    TraceResult { hash: w.trace_hash(), nontrivial: w.nontrivial, steps: w.step_no as u64, findings: std::mem::take(&mut w.findings), stats: std::mem::take(&mut w.stats), replay }
}

// ---------------------------------------------------------------------- directed witnesses

fn witness_cfg(n: usize) -> SimCfg {
    SimCfg {
        profile: Profile::Replication,
        n_slots: n,
        cluster_of: vec![0; n],
        cluster_ids: vec!["c".into()],
        tomb_grace: Duration::from_secs(30),
        dead_grace: Duration::from_secs(3600),
        phi: 8.0,
        window: 10,
        max_interval: Duration::from_secs(10),
        initial_interval: Duration::from_secs(5),
        keys: vec!["a".into(), "b".into(), "k".into()],
        big_values: false,
        predicate: false,
        crashes: false,
        steps: 0,
        late_join: false,
        no_data: false,
    }
}

/// KF-1 (DESIGN §5 C02): stale Set entry admitted by a copy whose watermark is above its max version.
/// Returns the findings of the scripted history.
pub async fn witness_kf1() -> TraceResult {
    let mut w = World::new(witness_cfg(3), 0xCF01);
    for s in 0..3 {
        w.start(s);
    }
    let (x, b, c) = (0usize, 1usize, 2usize);
    w.write(x, 0, "a", "1");
    w.write(x, 0, "b", "2");
    w.write(x, 0, "k", "v");
    w.handshake(b, x); // B holds X at max version 3, k = "v"
    w.write(x, 2, "k", ""); // delete k @4
    w.advance(Duration::from_secs(31)).await;
    w.gc(x); // X collects the tombstone: watermark 4
    // C learns X from a reply that can only carry two key-values: emulate the truncation with a
    // genuinely truncated reset by giving the big value to "b"? Not needed: the reset delta's max version
    // is that of its last key-value (b@2), the SetMaxVersion tail is only sent when no key-value is.
    w.handshake(c, x); // C is reset: copy (watermark 4, max version 2)
    let c_copy = w.slots[c].snap.copies.get(&w.slots[x].member).map(|cp| (cp.gc, cp.mv));
    w.note(format!("C's copy of X after reset: {c_copy:?}"));
    w.handshake(c, b); // B sends k=v@3 incrementally, C admits it
    w.handshake(c, x); // C catches up with X: max version 4, k still "v"
    let replay = w.replay_doc("E1-witness-kf1", 0);
    TraceResult { hash: w.trace_hash(), nontrivial: true, steps: w.step_no as u64, findings: std::mem::take(&mut w.findings), stats: std::mem::take(&mut w.stats), replay }
}

/// Issue-#178 shape: receiver max version = sender watermark - 1, = watermark, = watermark + 1,
/// then fair rounds (C01 / C14 witnesses).
pub async fn witness_178(delta: i64) -> TraceResult {
    let mut w = World::new(witness_cfg(3), 0x178u64.wrapping_add(delta as u64));
    for s in 0..3 {
        w.start(s);
    }
    let x = 0usize;
    let r = 1usize;
    // X writes 6 versions (the third one deletes "a"); R syncs when X is at version 3 + delta
    let script: [(u8, &str, &str); 6] = [(0, "a", "1"), (0, "b", "2"), (2, "a", ""), (0, "k", "v4"), (0, "k", "v5"), (0, "k", "v6")];
    for (i, (op, k, v)) in script.iter().enumerate() {
        w.write(x, *op, k, v);
        if (i as i64 + 1) == 3 + delta {
            w.handshake(r, x);
        }
    }
    w.advance(Duration::from_secs(31)).await;
    w.gc(x); // watermark 3
    fair_phase(&mut w, true).await;
    let replay = w.replay_doc("E1-witness-178", delta as u64);
    TraceResult { hash: w.trace_hash(), nontrivial: true, steps: w.step_no as u64, findings: std::mem::take(&mut w.findings), stats: std::mem::take(&mut w.stats), replay }
}

/// Same boundary shape with a state larger than one datagram: a replay from version 0 would be cut before
/// it reaches anything new, so a sender that wrongly decides "reset" for a receiver sitting exactly on its
/// watermark livelocks (the receiver correctly treats the delta as incremental and rejects it as stale).
pub async fn witness_178_big(delta: i64) -> TraceResult {
    let mut cfg = witness_cfg(3);
    cfg.big_values = true;
    let mut w = World::new(cfg, 0x178B1u64.wrapping_add(delta as u64));
    for s in 0..3 {
        w.start(s);
    }
    let x = 0usize;
    let r = 1usize;
    let mut brng = rng_from(0xB16);
    let big: Vec<String> = (0..3).map(|i| hi_entropy(&mut brng, 30_000 + i)).collect();
    // versions 1..7; version 5 is the tombstone the owner will collect
    let script: Vec<(u8, &str, String)> = vec![(0, "a", "1".into()), (0, "b", big[0].clone()), (0, "k", big[1].clone()), (0, "ab", big[2].clone()), (2, "a", String::new()), (0, "é", "6".into()), (0, "é", "7".into())];
    let stop = (5 + delta) as u64;
    for (i, (op, k, v)) in script.iter().enumerate() {
        w.write(x, *op, k, v);
        if (i as u64 + 1) == stop {
            // the receiver gets the tombstone later than the owner wrote it, so it will collect it later
            w.advance(Duration::from_secs(10)).await;
            // the state does not fit one datagram: several handshakes until the receiver holds everything so far
            for _ in 0..8 {
                let have = w.slots[r].snap.copies.get(&w.slots[x].member).map(|c| c.mv).unwrap_or(0);
                if have >= stop {
                    break;
                }
                w.handshake(r, x);
            }
        }
    }
    let have = w.slots[r].snap.copies.get(&w.slots[x].member).map(|c| c.mv).unwrap_or(0);
    w.note(format!("receiver synced up to {have} (wanted {stop})"));
    w.advance(Duration::from_secs(21)).await;
    w.gc(x); // owner watermark 5 (its tombstone is 31 s old, the receiver's copy of it only 21 s)
    w.write(x, 0, "é", "8"); // 8
    fair_phase(&mut w, true).await;
    let replay = w.replay_doc("E1-witness-178-big", delta as u64);
    TraceResult { hash: w.trace_hash(), nontrivial: true, steps: w.step_no as u64, findings: std::mem::take(&mut w.findings), stats: std::mem::take(&mut w.stats), replay }
}

/// A late joiner must catch up, over several datagrams, with an owner whose LAST write was a deletion that it has
/// collected (watermark == max version): the joiner's copy sits at (owner's watermark, max version below it) for
/// several rounds, while every node — like the real server — runs its tombstone GC pass before each of its rounds.
/// A GC pass that touches the frontier of such a copy (e.g. clamps the watermark to the max version) makes the owner
/// restart the transfer from version 0 every round: the copy never gets past the first datagram.
pub async fn witness_gc_between_catch_up_rounds(seed: u64) -> TraceResult {
    let mut cfg = witness_cfg(2);
    cfg.big_values = true;
    let mut w = World::new(cfg, seed);
    let (x, r) = (0usize, 1usize);
    w.start(x);
    let mut brng = rng_from(0x6C01);
    // ten near-incompressible values of ~30 KB: five datagrams at least
    for i in 0..10usize {
        w.write(x, 0, &format!("big{i}"), &hi_entropy(&mut brng, 30_000 + i));
    }
    w.write(x, 0, "tmp", "tmp");
    w.write(x, 2, "tmp", "");
    w.advance(Duration::from_secs(31)).await;
    w.gc(x); // owner: watermark == max version == 12
    w.start(r); // the late joiner
    fair_phase(&mut w, true).await;
    let replay = w.replay_doc("E1-witness-gc-between-catch-up-rounds", seed);
    TraceResult { hash: w.trace_hash(), nontrivial: true, steps: w.step_no as u64, findings: std::mem::take(&mut w.findings), stats: std::mem::take(&mut w.stats), replay }
}

/// C13: a live member's max version goes DOWN through a gossip reset (its latest writes were deletions that the
/// owner collected while only its SYNs reached us): the live set / max versions changed, so a new value is due.
pub async fn witness_watch_reset() -> TraceResult {
    let mut cfg = witness_cfg(2);
    cfg.profile = Profile::Watch;
    cfg.tomb_grace = Duration::from_secs(20);
    cfg.dead_grace = Duration::from_secs(3600);
    cfg.phi = 8.0;
    cfg.max_interval = Duration::from_secs(10);
    cfg.initial_interval = Duration::from_secs(1);
    let mut w = World::new(cfg, 0xC13);
    for s in 0..2 {
        w.start(s);
    }
    let (x, b) = (0usize, 1usize);
    w.write(x, 0, "a", "1");
    w.write(x, 0, "b", "2");
    w.write(x, 0, "k", "3");
    w.handshake(b, x); // B holds X at max version 3
    w.write(x, 2, "k", ""); // delete k @4, B never sees the tombstone
    // only X's SYNs reach B for a while: X stays live on B
    for _ in 0..25 {
        w.advance(Duration::from_secs(1)).await;
        w.beat(x);
        if let Some(syn) = w.emit_syn(x) {
            let _ = w.process(b, x, &syn);
        }
        w.eval(b);
    }
    w.gc(x); // X collects the tombstone: watermark 4
    w.handshake(b, x); // B is reset: copy (watermark 4, max version 2): the max version went down
    w.eval(b);
    w.handshake(b, x);
    w.eval(b);
    let replay = w.replay_doc("E1-witness-watch-reset", 0);
    TraceResult { hash: w.trace_hash(), nontrivial: true, steps: w.step_no as u64, findings: std::mem::take(&mut w.findings), stats: std::mem::take(&mut w.stats), replay }
}

/// Everything collected by the owner: the only thing left to send is the max version.
pub async fn witness_empty_tail() -> TraceResult {
    let mut w = World::new(witness_cfg(3), 0xE7);
    for s in 0..3 {
        w.start(s);
    }
    w.write(0, 0, "a", "1");
    w.write(0, 2, "a", "");
    w.handshake(1, 0);
    w.write(0, 0, "b", "1");
    w.write(0, 2, "b", "");
    w.advance(Duration::from_secs(31)).await;
    w.gc(0);
    w.gc(1);
    fair_phase(&mut w, true).await;
    let replay = w.replay_doc("E1-witness-empty-tail", 0);
    TraceResult { hash: w.trace_hash(), nontrivial: true, steps: w.step_no as u64, findings: std::mem::take(&mut w.findings), stats: std::mem::take(&mut w.stats), replay }
}

// ---------------------------------------------------------------------- property checks

struct Plan {
    profiles: Vec<(Profile, u32)>,
    quick: u64,
    thorough: u64,
    fair: bool,
    /// counters of which at least one must be > 0, else the property is inconclusive
    triggers: Vec<&'static str>,
    rule: &'static str,
}

fn plan_for(prop: &str) -> Plan {
    use Profile::*;
    match prop {
        "C01" => Plan { profiles: vec![(Replication, 6), (Membership, 3), (Mixed, 1)], quick: 12_000, thorough: 400_000, fair: true, triggers: vec!["c01_handshake_obligations"], rule: "trace = seeded hostile prefix (50-400 steps: writes, SYNs, any-order deliveries, duplicates, drops, partitions, GC, clock advances, crashes/restarts) followed by the fair phase; distinct = hash of (delivery order, set of abstract states); non-trivial = trace containing a reset, a truncated delta, a reordered or late-duplicate delivery, a drop, a crash or a removal" },
        "C02" | "C03" | "C05" => Plan { profiles: vec![(Replication, 6), (Membership, 2), (Mixed, 2)], quick: 16_000, thorough: 500_000, fair: true, triggers: vec!["delta_messages_processed"], rule: "trace = seeded hostile prefix + fair phase on 2-5 real nodes, monitors after every step on every copy; distinct = hash of (delivery order, set of abstract states); non-trivial = trace containing a reset, truncation, reordering, late duplicate, drop, crash or removal" },
        "C04" => Plan { profiles: vec![(Replication, 5), (Membership, 3), (Mixed, 2)], quick: 12_000, thorough: 400_000, fair: true, triggers: vec!["delta_messages_processed", "effective_writes"], rule: "E1 part: as C02; distinct = hash of (delivery order, abstract states)" },
        "C20" => Plan { profiles: vec![(Replication, 7), (Mixed, 3)], quick: 16_000, thorough: 500_000, fair: true, triggers: vec!["messages_with_reset"], rule: "E1 part: every processed SYN-ACK / ACK of seeded hostile traces; distinct = hash of (delivery order, abstract states); non-trivial = trace with at least one reset" },
        "C12" => Plan { profiles: vec![(Membership, 7), (Mixed, 2), (Watch, 1)], quick: 16_000, thorough: 500_000, fair: true, triggers: vec!["members_removed", "evaluations_with_dead_members"], rule: "trace = membership-focused hostile prefix (short dead-node grace, crashes, restarts, partitions, clock advances at 1/2 and 1 x grace -/+ 1 ms) + fair phase; distinct = hash of (delivery order, abstract states incl. live/dead/scheduled set sizes)" },
        "C13" => Plan { profiles: vec![(Watch, 6), (Membership, 4)], quick: 16_000, thorough: 500_000, fair: true, triggers: vec!["watch_values_checked"], rule: "trace = membership-focused prefix with and without the READY predicate, predicate flips by writes / TTL / deletes / crashes; every evaluation is checked; distinct = hash of (delivery order, abstract states)" },
        "C06" => Plan { profiles: vec![(Replication, 5), (Membership, 3), (Mixed, 2)], quick: 6_000, thorough: 300_000, fair: true, triggers: vec!["gc_passes_that_collected"], rule: "" },
        "C07" => Plan { profiles: vec![(Membership, 4), (Mixed, 4), (Replication, 2)], quick: 4_000, thorough: 200_000, fair: true, triggers: vec!["datagrams_emitted"], rule: "" },
        "C11" => Plan { profiles: vec![(Membership, 5), (Mixed, 3), (Replication, 2)], quick: 6_000, thorough: 300_000, fair: true, triggers: vec!["evaluations"], rule: "" },
        "C14" => Plan { profiles: vec![(Replication, 7), (Membership, 2), (Mixed, 1)], quick: 3_000, thorough: 200_000, fair: true, triggers: vec!["c14_node_deltas_checked"], rule: "" },
        "C16" => Plan { profiles: vec![(TwoClusters, 1)], quick: 16_000, thorough: 500_000, fair: true, triggers: vec!["foreign_syns_processed"], rule: "trace = two clusters (1-3 nodes each, ids like \"\"/\"a\", \"a\"/\"A\", \"a\"/\"ab\") sharing one message fabric and addresses; every SYN may cross; distinct = hash of (delivery order, abstract states); non-trivial = at least one foreign SYN processed" },
        _ => panic!("not an E1 property: {prop}"),
    }
}

fn profile_for(plan: &Plan, i: u64) -> Profile {
    let total: u32 = plan.profiles.iter().map(|p| p.1).sum();
    let mut r = (mix(i, 99) % total as u64) as u32;
    for (p, wgt) in &plan.profiles {
        if r < *wgt {
            return *p;
        }
        r -= wgt;
    }
    plan.profiles[0].0
}

pub struct E1Run {
    pub findings: Vec<(Finding, Value)>,
    pub known: BTreeMap<&'static str, u64>,
    pub stats: Counters,
    pub traces: u64,
    pub steps: u64,
    pub distinct: std::collections::HashSet<u64>,
    pub skipped: u64,
    pub samples: Vec<Value>,
}

/// Runs the E1 workload for `prop` and returns the findings relevant to it.
pub fn run_e1(args: &Args, prop: &str, deadline: &Deadline) -> E1Run {
    crate::sim::set_focus(prop);
    let plan = plan_for(prop);
    let miri = args.has("--miri");
    let n = if miri { 6 } else { args.n(plan.quick, plan.thorough) };
    let seed = args.seed;
    let results = par_run(n, args.threads, |i| {
        if deadline.expired() {
            return None;
        }
        let profile = profile_for(&plan, i);
        let tseed = mix3(seed, i, hash_str(prop) & 0xff); // traces differ per property and per VERIF_SEED
        let rt = paused_rt();
        let r = catch(|| rt.block_on(run_trace(profile, tseed, i, TraceOpts { fair_phase: plan.fair && !miri, verbose: false, no_data: miri })));
        Some((profile, tseed, r))
    });
    let mut out = E1Run { findings: vec![], known: BTreeMap::new(), stats: Counters::default(), traces: 0, steps: 0, distinct: Default::default(), skipped: n, samples: vec![] };
    for (i, (profile, tseed, r)) in results {
        out.skipped -= 1;
        out.traces += 1;
        match r {
            Ok(tr) => {
                out.stats.merge(&tr.stats);
                out.steps += tr.steps;
                if tr.nontrivial {
                    out.distinct.insert(tr.hash);
                }
                if out.samples.len() < 3 && tr.nontrivial {
                    out.samples.push(json!({"trace_index": i, "profile": format!("{profile:?}"), "trace_seed": tseed, "config": tr.replay["config"], "last_steps": tr.replay["last_steps"].as_array().map(|a| a.iter().rev().take(12).rev().cloned().collect::<Vec<_>>())}));
                }
                for f in tr.findings {
                    if !f.is_for(prop) {
                        out.stats.inc("findings_for_other_properties");
                        if args.has("--dump") {
                            println!("OTHER {:?} known={:?} kind={} profile={profile:?} tseed={tseed} :: {}", f.props, f.known, f.kind, truncate(&f.detail, 400));
                        }
                        continue;
                    }
                    if let Some(k) = f.known {
                        *out.known.entry(k).or_default() += 1;
                        continue;
                    }
                    let mut doc = tr.replay.clone();
                    doc["profile"] = json!(format!("{profile:?}"));
                    doc["replay_cmd"] = json!(format!("./check {prop} --replay <this file>"));
                    out.findings.push((f, doc));
                }
            }
            Err(p) => {
                // a panic of the harness itself (not inside a monitored step): harness error, reported as inconclusive
                out.stats.inc("harness_panics");
                if out.samples.len() < 6 {
                    out.samples.push(json!({"harness_panic": p, "trace_index": i, "trace_seed": tseed}));
                }
            }
        }
    }
    out
}

pub fn replay(args: &Args, path: &std::path::Path) -> i32 {
    let Ok(s) = std::fs::read_to_string(path) else {
        println!("cannot read {path:?}");
        return 2;
    };
    let Ok(doc): Result<Value, _> = serde_json::from_str(&s) else { return 2 };
    let tseed = doc["trace_seed"].as_u64().unwrap_or(0);
    let idx = doc["trace_index"].as_u64().unwrap_or(0);
    let profile = match doc["profile"].as_str().unwrap_or("") {
        "Membership" => Profile::Membership,
        "Mixed" => Profile::Mixed,
        "TwoClusters" => Profile::TwoClusters,
        "Watch" => Profile::Watch,
        _ => Profile::Replication,
    };
    let rt = paused_rt();
    let tr = rt.block_on(run_trace(profile, tseed, idx, TraceOpts { fair_phase: true, verbose: true, no_data: false }));
    let mut code = 0;
    for f in &tr.findings {
        println!("FINDING props={:?} kind={} known={:?}\n  {}", f.props, f.kind, f.known, f.detail);
        if f.is_for(&args.prop) && f.known.is_none() {
            println!("VIOLATION property={} replay={}", args.prop, path.display());
            code = 1;
        }
    }
    if tr.findings.is_empty() {
        println!("replay: no finding reproduced");
    }
    code
}

pub fn check(args: &Args) -> Outcome {
    let prop = args.prop.clone();
    crate::sim::set_focus(&prop);
    let plan = plan_for(&prop);
    let mut ev = Evidence::new(args, "exploration");
    let deadline = Deadline::new(args.tier.pick(240, 3000));
    let mut violations: Vec<(Finding, Value)> = vec![];
    // 1. directed witnesses
    let rt = paused_rt();
    let mut wit: Vec<(&str, TraceResult)> = vec![];
    if !args.has("--miri") {
        wit.push(("kf1", rt.block_on(witness_kf1())));
        for d in [-1i64, 0, 1] {
            wit.push(("issue178", rt.block_on(witness_178(d))));
        }
        wit.push(("empty_tail", rt.block_on(witness_empty_tail())));
        for d in [-1i64, 0, 1] {
            wit.push(("issue178_big_state", rt.block_on(witness_178_big(d))));
        }
        wit.push(("watch_reset_lowers_max_version", rt.block_on(witness_watch_reset())));
        // seed 6: server-like rounds (one peer per round); seed 9: all ordered pairs per round with a GC pass before
        for sd in [6u64, 9] {
            wit.push(("gc_between_catch_up_rounds", rt.block_on(witness_gc_between_catch_up_rounds(sd))));
        }
    }
    let mut kf1_witness_reproduced = false;
    for (name, tr) in wit {
        if args.has("--witnesses") {
            println!("=== witness {name}: {} findings", tr.findings.len());
            if let Some(a) = tr.replay["last_steps"].as_array() {
                for l in a {
                    println!("   {}", l.as_str().unwrap_or(""));
                }
            }
        }
        ev.evaluations += 1;
        ev.distinct.insert(tr.hash);
        ev.counters.merge(&tr.stats);
        for f in tr.findings {
            if !f.is_for(&prop) {
                continue;
            }
            if f.known == Some("KF-1") {
                kf1_witness_reproduced = true;
                continue;
            }
            let mut doc = tr.replay.clone();
            doc["witness"] = json!(name);
            violations.push((f, doc));
        }
    }
    // 2. generated workload
    let run = run_e1(args, &prop, &deadline);
    ev.evaluations += run.traces;
    ev.distinct.extend(run.distinct.iter());
    ev.counters.merge(&run.stats);
    ev.counters.add("monitored_steps", run.steps);
    ev.samples = run.samples.clone();
    ev.rule = plan.rule.to_string();
    if run.skipped > 0 {
        ev.inconclusive.push(format!("wall-clock watchdog: {} of the planned traces were not generated", run.skipped));
    }
    if run.stats.get("harness_panics") > 0 {
        ev.inconclusive.push(format!("{} traces ended in a harness panic (not a verdict)", run.stats.get("harness_panics")));
    }
    violations.extend(run.findings);
    // 3. known findings
    if prop == "C02" {
        let generated = run.known.get("KF-1").copied().unwrap_or(0);
        ev.counters.add("kf1_exactness_failures_attributed", generated);
        if kf1_witness_reproduced || generated > 0 {
            if known_open("KF-1") {
                ev.known_findings.push(format!("KF-1 stale Set entry admitted by a copy whose GC watermark is above its max version: deleted key visible again (directed witness reproduced: {kf1_witness_reproduced}; generated traces hitting it: {generated})"));
            } else {
                violations.push((Finding::new(&["C02"], "exact.kf1_not_listed", "KF-1 signature observed but known_findings.json does not list it as open".into()), json!({"engine": "E1-witness-kf1"})));
            }
        }
    }
    ev.assumptions = vec![
        "every ChitchatId is used by one incarnation (restarts use generation+1)".into(),
        "digest + any single key-value fit one datagram (values <= 30 KB, <= 5 members)".into(),
        "virtual time (tokio paused clock); wall-clock effects are not exercised".into(),
        "verdict covers the executions observed, nothing more".into(),
    ];
    let nothing = plan.triggers.iter().all(|t| ev.counters.get(t) == 0);
    Outcome { evidence: ev, violations, nothing_observed: nothing }
}
