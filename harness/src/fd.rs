//! E6 — failure-detector timing monitors (C10, C11): a real node receives crafted SYN digests
//! carrying heartbeat values at chosen virtual instants; the harness keeps the evidence log and
//! asserts the completeness deadline (C10), the "fresh evidence only" rule through a twin node
//! that receives only the fresh values (C11), and the accuracy bound for steady heartbeats (C11).

use std::collections::BTreeSet;
use std::time::Duration;

use chitchat::{Chitchat, ChitchatId};
use rand::prelude::*;
use serde_json::{json, Value};
use tokio::time::Instant;

use crate::codec::{WDigestEntry, WId};
use crate::common::*;
use crate::craft::*;

#[derive(Clone, Debug)]
pub struct FdCfg {
    pub phi: f64,
    pub window: usize,
    pub max_interval: Duration,
    pub initial_interval: Duration,
    /// None = effectively infinite
    pub dead_grace: Option<Duration>,
}

/// Harness-side shadow of what was delivered for one member.
#[derive(Default, Clone)]
struct Shadow {
    /// (instant, step) of arrivals whose value was strictly above everything delivered before (incl. the first)
    fresh: Vec<(Instant, usize)>,
    max_val: Option<u64>,
    /// step of the last evaluation that found the member dead (window cleared)
    last_dead_eval: Option<usize>,
    known: bool,
    /// equal / lower / duplicated values were delivered since the last fresh one
    stale_since_fresh: bool,
}

pub struct HistOut {
    pub findings: Vec<Finding>,
    pub c: Counters,
    pub hash: u64,
    pub sample: Value,
}

fn member(n: usize, namesakes: bool) -> WId {
    // namesakes: the members share node id and generation and differ by their address only (still distinct ids);
    // the first of them is moreover a namesake of the OBSERVING node "r" (an earlier / later incarnation of it, or a
    // homonym elsewhere): another member like any other
    if namesakes && n == 0 {
        return WId { node_id: "r".to_string(), generation: 1, addr: addr(9100) };
    }
    WId { node_id: if namesakes { "x".to_string() } else { format!("x{n}") }, generation: 0, addr: addr(9100 + n as u16) }
}

struct Rig {
    main: TestNode,
    twin: TestNode,
    cfg: FdCfg,
    shadows: Vec<Shadow>,
    step: usize,
    members: Vec<WId>,
    /// version of the last READY write delivered for each member (predicate histories)
    ready_ver: Vec<u64>,
    out: HistOut,
    ctx: String,
}

impl Rig {
    fn new(cfg: FdCfg, n_members: usize, ctx: String) -> Rig {
        Rig::new_with(cfg, n_members, ctx, false, false)
    }

    fn new_with(cfg: FdCfg, n_members: usize, ctx: String, namesakes: bool, predicate: bool) -> Rig {
        let o = NodeOpts { phi: cfg.phi, window: cfg.window, max_interval: cfg.max_interval, initial_interval: cfg.initial_interval, dead_grace: cfg.dead_grace.unwrap_or(Duration::from_secs(1_000_000_000)), predicate, ..Default::default() };
        Rig {
            main: mk_node(simple_id("r", 9000), &o),
            twin: mk_node(simple_id("r", 9000), &o),
            cfg,
            shadows: vec![Shadow::default(); n_members],
            step: 0,
            members: (0..n_members).map(|n| member(n, namesakes)).collect(),
            ready_ver: vec![0; n_members],
            out: HistOut { findings: vec![], c: Counters::default(), hash: 0, sample: json!(null) },
            ctx,
        }
    }

    fn fail(&mut self, props: &[&'static str], kind: &str, detail: String) {
        if self.out.findings.len() < 20 {
            let d = format!("{}: step {}: {}", self.ctx, self.step, detail);
            self.out.findings.push(Finding::new(props, kind, d));
        }
    }

    /// Delivers one SYN whose digest carries `vals[i]` for member i (None = not mentioned).
    fn arrive(&mut self, vals: &[Option<u64>]) {
        self.step += 1;
        let now = Instant::now();
        let me = wid(&self.main.id);
        let mut d_main = vec![WDigestEntry { id: me.clone(), heartbeat: 1, last_gc: 0, max_version: 0 }];
        let mut d_twin = d_main.clone();
        for (i, v) in vals.iter().enumerate() {
            let Some(v) = *v else { continue };
            let e = WDigestEntry { id: self.members[i].clone(), heartbeat: v, last_gc: 0, max_version: 0 };
            d_main.push(e.clone());
            let sh = &mut self.shadows[i];
            let fresh = sh.max_val.map(|m| v > m).unwrap_or(true);
            if fresh {
                sh.max_val = Some(v);
                sh.fresh.push((now, self.step));
                sh.known = true;
                d_twin.push(e);
                sh.stale_since_fresh = false;
                self.out.c.inc("fresh_values_delivered");
            } else {
                sh.stale_since_fresh = true;
                self.out.c.inc("stale_values_delivered");
            }
            self.out.hash = mix3(self.out.hash, v, fresh as u64);
        }
        // heartbeats travel in the digests of SYNs and of SYN-ACKs (a relay answering us): alternate the carrier
        let as_synack = self.step % 3 == 0;
        self.out.c.inc(if as_synack { "digests_in_synacks" } else { "digests_in_syns" });
        for (node, d) in [(&mut self.main, &d_main), (&mut self.twin, &d_twin)] {
            let bytes = if as_synack { synack_bytes(d, &[]) } else { syn_bytes("c", d) };
            match catch(|| feed(&mut node.cc, &bytes)) {
                Ok(Ok(_)) => {}
                Ok(Err(e)) => self.out.findings.push(Finding::new(&["C08"], "fd.syn_rejected", format!("{}: crafted SYN rejected: {e}", self.ctx))),
                Err(p) => self.out.findings.push(Finding::new(&["C10", "C11", "C09"], "fd.panic", format!("{}: processing a digest panicked: {p}", self.ctx))),
            }
        }
    }

    /// A key-value of the member arrives (an ACK delta, no digest): READY = "true" / "false". With the extra liveness
    /// predicate configured it decides whether the watch channel lists the member; the failure detector's verdicts
    /// (live / dead sets, deadlines) do not depend on it.
    fn set_ready(&mut self, i: usize, ready: bool) {
        self.step += 1;
        let id = cid(&self.members[i]);
        if self.main.cc.node_state(&id).is_none() || self.twin.cc.node_state(&id).is_none() {
            return;
        }
        let from = self.ready_ver[i];
        self.ready_ver[i] += 1;
        let ops = vec![crate::codec::WOp::Node { id: self.members[i].clone(), last_gc: 0, from }, crate::codec::WOp::Kv { key: "READY".into(), value: if ready { "true" } else { "false" }.into(), version: from + 1, status: 0 }];
        let bytes = ack_bytes(&ops);
        for node in [&mut self.main, &mut self.twin] {
            if let Err(p) = catch(|| feed(&mut node.cc, &bytes)) {
                self.out.findings.push(Finding::new(&["C09"], "fd.panic", format!("{}: processing a READY delta panicked: {p}", self.ctx)));
            }
        }
        self.out.c.inc("ready_key_writes_delivered");
    }

    /// A relayed delta that rebuilds our copy of the member from scratch (its owner collected tombstones we never saw):
    /// data, not a life sign.
    fn reset_delta(&mut self, i: usize) {
        self.step += 1;
        let id = cid(&self.members[i]);
        if self.main.cc.node_state(&id).is_none() || self.twin.cc.node_state(&id).is_none() {
            return;
        }
        let gc = self.ready_ver[i] + 3;
        self.ready_ver[i] = gc + 1;
        let ops = vec![crate::codec::WOp::Node { id: self.members[i].clone(), last_gc: gc, from: 0 }, crate::codec::WOp::Kv { key: "READY".into(), value: "true".into(), version: gc + 1, status: 0 }];
        let bytes = ack_bytes(&ops);
        for node in [&mut self.main, &mut self.twin] {
            if let Err(p) = catch(|| feed(&mut node.cc, &bytes)) {
                self.out.findings.push(Finding::new(&["C09"], "fd.panic", format!("{}: processing a reset delta panicked: {p}", self.ctx)));
            }
        }
        self.out.c.inc("reset_deltas_delivered");
    }

    /// The external catch-up entry point is no heartbeat: it must not count as evidence either (same call on both nodes).
    fn catch_up(&mut self, i: usize, max_version: u64) {
        self.step += 1;
        let id = cid(&self.members[i]);
        for node in [&mut self.main, &mut self.twin] {
            if let Err(p) = catch(|| node.cc.reset_node_state_if_update(&id, std::iter::empty(), max_version, 0)) {
                self.out.findings.push(Finding::new(&["C18"], "fd.catchup_panic", format!("{}: catch-up panicked: {p}", self.ctx)));
            }
        }
        // a catch-up may create the copy: it is then known, with no heartbeat value observed so far
        if self.main.cc.node_state(&id).is_some() && !self.shadows[i].known {
            self.shadows[i].known = true;
        }
        self.out.c.inc("catch_up_calls");
    }

    fn eval(&mut self) {
        self.step += 1;
        let now = Instant::now();
        self.main.cc.verif_update_nodes_liveness();
        self.twin.cc.verif_update_nodes_liveness();
        self.out.c.inc("evaluations");
        let sets = |cc: &Chitchat| -> (BTreeSet<ChitchatId>, BTreeSet<ChitchatId>, BTreeSet<ChitchatId>) { (cc.live_nodes().cloned().collect(), cc.dead_nodes().cloned().collect(), cc.scheduled_for_deletion_nodes().cloned().collect()) };
        let (live, dead, sched) = sets(&self.main.cc);
        let (tl, td, ts) = sets(&self.twin.cc);
        // C11 (ii): twin oracle — non-fresh values changed nothing observable
        if live != tl || dead != td || sched != ts {
            self.fail(&["C11"], "fd.twin_differs", format!("the node that also received equal/lower/duplicated heartbeats reports live {live:?} dead {dead:?}, the node that received only the fresh ones reports live {tl:?} dead {td:?}"));
        }
        for i in 0..self.members.len() {
            let id = cid(&self.members[i]);
            let hb = |cc: &Chitchat| cc.node_state(&id).map(|ns| u64::from(ns.heartbeat()));
            if hb(&self.main.cc) != hb(&self.twin.cc) {
                let (a, b) = (hb(&self.main.cc), hb(&self.twin.cc));
                self.fail(&["C11"], "fd.twin_heartbeat", format!("stored heartbeat of x{i}: {a:?} with stale values delivered, {b:?} without"));
            }
            // removed after the dead-node grace period: the copy's lifetime ends (both nodes must agree on that)
            let known_main = self.main.cc.node_state(&id).is_some();
            let known_twin = self.twin.cc.node_state(&id).is_some();
            if known_main != known_twin {
                self.fail(&["C11"], "fd.twin_membership", format!("x{i} known = {known_main} with stale values delivered, {known_twin} without"));
            }
            // C11 (iii) in its general form, judged BEFORE a removal is accepted: the window holds (a subset of) the
            // gaps between consecutive reported values that arrived after the last evaluation which found the member dead
            // and were at most max_interval apart (longer gaps are not sampled, the first value ever only sets the
            // baseline in the node state). With at least one such gap, smallest one a, the smoothed mean is at least
            // min(a, initial_interval), so phi <= elapsed / min(a, initial_interval): if that is within the threshold the
            // member is live at this evaluation — in particular it has not just been forgotten.
            if self.shadows[i].known {
                let sh = &self.shadows[i];
                let lde = sh.last_dead_eval.unwrap_or(0);
                // smallest gap over every pair a reading of the statement could sample (from the second value on), but
                // the claim is only made when the strictest reading (the first value is a mere baseline: third value
                // on) has a sample as well
                let mut a = f64::INFINITY;
                let mut strict_sample = false;
                for k in 1..sh.fresh.len() {
                    if sh.fresh[k].1 > lde {
                        let g = sh.fresh[k].0 - sh.fresh[k - 1].0;
                        if g <= self.cfg.max_interval {
                            a = a.min(g.as_secs_f64());
                            strict_sample |= k >= 2;
                        }
                    }
                }
                if a.is_finite() && strict_sample {
                    let elapsed = (now - sh.fresh.last().unwrap().0).as_secs_f64();
                    let denom = a.min(self.cfg.initial_interval.as_secs_f64());
                    if denom > 0.0 && self.cfg.phi >= (elapsed / denom) * (1.0 + 1e-9) + 1e-12 {
                        self.out.c.inc("c11_live_claims_general");
                        if !live.contains(&id) {
                            let removed = !known_main;
                            self.fail(&["C11"], "fd.fresh_member_not_live", format!("x{i}: sampled gaps after the last dead evaluation (step {lde}) have minimum {a}s, the last fresh value arrived {elapsed}s ago, phi threshold {} >= elapsed / min(a, initial {:?}) = {}: the member must be live at this evaluation, it is {}", self.cfg.phi, self.cfg.initial_interval, elapsed / denom, if removed { "forgotten (removed)" } else { "reported dead" }));
                        }
                    }
                }
            }
            if self.shadows[i].known && !known_main {
                self.out.c.inc("members_removed");
                let sh = &mut self.shadows[i];
                sh.known = false;
                sh.fresh.clear();
                sh.last_dead_eval = None;
            }
            let sh = self.shadows[i].clone();
            if !sh.known {
                continue;
            }
            let is_live = live.contains(&id);
            let is_dead = dead.contains(&id);
            if is_live == is_dead {
                self.fail(&["C12", "C10"], "fd.unclassified", format!("x{i} live={is_live} dead={is_dead} right after an evaluation"));
            }
            let Some(last_fresh) = sh.fresh.last().map(|f| f.0) else {
                // known only through a catch-up call: no heartbeat value was ever observed
                if is_live {
                    self.fail(&["C10", "C11"], "fd.live_with_fewer_than_two_values", format!("x{i} is live although no heartbeat value was ever delivered for it (only catch-up calls)"));
                }
                continue;
            };
            let elapsed = now - last_fresh;
            // C10: completeness with a bounded delay
            let bound_s = self.cfg.phi * self.cfg.max_interval.max(self.cfg.initial_interval).as_secs_f64();
            if elapsed.as_secs_f64() > bound_s * (1.0 + 1e-9) + 1e-6 {
                self.out.c.inc("c10_deadline_claims");
                if is_live || !is_dead {
                    // silent past the deadline while replayed / lower values kept arriving: those did postpone it (C11 too)
                    let props: &[&'static str] = if sh.stale_since_fresh { &["C10", "C11"] } else { &["C10"] };
                    self.fail(props, "fd.not_dead_after_deadline", format!("x{i}: no fresh heartbeat for {elapsed:?} > phi {} x max(max_interval {:?}, initial {:?}) = {bound_s}s, yet live={is_live} dead={is_dead}", self.cfg.phi, self.cfg.max_interval, self.cfg.initial_interval));
                }
            }
            // C10 / C11 (i): live needs two usable observations
            if is_live {
                self.out.c.inc("live_verdicts");
                if sh.fresh.len() < 2 {
                    self.fail(&["C10", "C11"], "fd.live_with_fewer_than_two_values", format!("x{i} is live after {} strictly increasing heartbeat value(s)", sh.fresh.len()));
                } else {
                    let lde = sh.last_dead_eval.unwrap_or(0);
                    let ok = sh.fresh.windows(2).any(|w| w[1].1 > lde && w[1].0 - w[0].0 <= self.cfg.max_interval);
                    if !ok {
                        self.fail(&["C10", "C11"], "fd.live_without_usable_pair", format!("x{i} is live but no two consecutive fresh observations at most max_interval {:?} apart exist with the later one after the last evaluation that found it dead (step {lde}); fresh arrivals at steps {:?}", self.cfg.max_interval, sh.fresh.iter().map(|f| f.1).collect::<Vec<_>>()));
                    }
                }
            }
            // C11 (iii): accuracy for steady heartbeats
            let lde = sh.last_dead_eval.unwrap_or(0);
            // reports = fresh arrivals except the first one (which only sets the baseline)
            let mut gaps: Vec<f64> = vec![];
            let mut real_gaps = 0;
            for k in 1..sh.fresh.len() {
                if sh.fresh[k].1 > lde {
                    gaps.push((sh.fresh[k].0 - sh.fresh[k - 1].0).as_secs_f64());
                    if k >= 2 {
                        real_gaps += 1;
                    }
                }
            }
            if real_gaps >= 1 {
                let a = gaps.iter().cloned().fold(f64::INFINITY, f64::min);
                let b = gaps.iter().cloned().fold(0.0, f64::max);
                let init = self.cfg.initial_interval.as_secs_f64();
                let denom = a.min(init);
                if b <= self.cfg.max_interval.as_secs_f64() && denom > 0.0 && elapsed.as_secs_f64() <= b && self.cfg.phi >= (b / denom) * (1.0 + 1e-9) {
                    self.out.c.inc("c11_accuracy_claims");
                    if !is_live {
                        self.fail(&["C11"], "fd.steady_member_flagged", format!("x{i}: fresh heartbeats at gaps within [{a}, {b}]s (max_interval {:?}), last one {elapsed:?} ago, phi threshold {} >= b/min(a, initial {init}) = {}, yet reported dead", self.cfg.max_interval, self.cfg.phi, b / denom));
                    }
                }
            }
            if is_dead {
                self.shadows[i].last_dead_eval = Some(self.step);
                self.out.c.inc("dead_verdicts");
            }
        }
    }
}

fn pick_dur(rng: &mut StdRng, cfg: &FdCfg) -> Duration {
    let mi = cfg.max_interval;
    let ii = cfg.initial_interval;
    match rng.random_range(0..14) {
        0 => Duration::ZERO,
        1 => Duration::from_nanos(1),
        2 => mi / 1000,
        3 => mi / 10,
        4 => mi / 2,
        5 => mi - Duration::from_nanos(1),
        6 => mi,
        7 => mi + Duration::from_nanos(1),
        8 => mi * 2,
        9 => ii,
        10 => ii / 3,
        11 => mi.mul_f64(cfg.phi.min(20.0)),
        12 => mi.max(ii).mul_f64(cfg.phi * 1.01) + Duration::from_millis(1),
        _ => Duration::from_secs_f64(rng.random_range(0.0..(mi.as_secs_f64() * 1.5))),
    }
}

pub async fn random_history(seed: u64, i: u64, max_events: usize, allow_catchup: bool) -> HistOut {
    let mut rng = rng_from(mix3(seed, i, 0xFD));
    let scale = [0.01f64, 0.1, 1.0, 10.0][rng.random_range(0..4)];
    let cfg = FdCfg {
        phi: [0.5, 1.0, 2.0, 3.0, 8.0, 16.0, rng.random_range(0.5..16.0)][rng.random_range(0..7)],
        window: [1usize, 2, 10, 1000][rng.random_range(0..4)],
        max_interval: Duration::from_secs_f64(scale * [1.0, 2.0, 10.0][rng.random_range(0..3)]),
        initial_interval: Duration::from_secs_f64(scale * [0.5, 1.0, 5.0, 20.0][rng.random_range(0..4)]),
        dead_grace: None,
    };
    // a third of the histories use a short dead-node grace period: members get scheduled for deletion, removed and
    // re-created while heartbeats keep (or resume) arriving
    let cfg = if rng.random_range(0..3) == 0 {
        let bound = cfg.max_interval.max(cfg.initial_interval).mul_f64(cfg.phi);
        FdCfg { dead_grace: Some(bound * [3u32, 6, 12][rng.random_range(0..3)]), ..cfg }
    } else {
        cfg
    };
    let nm = rng.random_range(1..=3);
    // one history in six: members that differ by their address only; one in five: heartbeat values spread over the
    // whole u64 range (jumps of 2^62 / 2^63), so that "lower" can be lower by more than half the range
    let namesakes = rng.random_range(0..6) == 0;
    let wide = rng.random_range(0..5) == 0;
    // one history in five: the node is configured with the extra liveness predicate READY == "true"; the members' READY
    // key is written now and then (or never)
    let predicate = rng.random_range(0..5) == 0;
    let mut rig = Rig::new_with(cfg.clone(), nm, format!("history {i} cfg {cfg:?}{}{}{}", if namesakes { " namesakes" } else { "" }, if wide { " wide-heartbeats" } else { "" }, if predicate { " predicate" } else { "" }), namesakes, predicate);
    let events = rng.random_range(1..=max_events);
    // a quarter of the histories interleave calls of the external catch-up entry point (no heartbeat in them)
    let with_catchup = allow_catchup && rng.random_range(0..4) == 0;
    let mut catchup_mv: Vec<u64> = vec![0; nm];
    let mut cur: Vec<u64> = (0..nm).map(|_| rng.random_range(1..100)).collect();
    // a regime shapes a stretch of the history
    let mut regime = rng.random_range(0..5);
    let mut steady = cfg.max_interval.mul_f64(rng.random_range(0.05..1.0));
    for e in 0..events {
        if e % 25 == 0 {
            regime = rng.random_range(0..5);
            steady = cfg.max_interval.mul_f64(rng.random_range(0.05..1.0));
        }
        let dt = match regime {
            0 => steady,                                  // steady arrivals
            1 => steady.mul_f64(rng.random_range(0.5..1.0)), // jittered within [steady/2, steady]
            2 => Duration::ZERO,                          // burst at one instant
            _ => pick_dur(&mut rng, &cfg),
        };
        tokio::time::advance(dt).await;
        let r = rng.random_range(0..100);
        if !with_catchup && (92..95).contains(&r) && i % 3 == 0 {
            let m = rng.random_range(0..nm);
            rig.reset_delta(m);
        } else if predicate && !with_catchup && r >= 95 {
            let m = rng.random_range(0..nm);
            let ready = rng.random_bool(0.5);
            rig.set_ready(m, ready);
        } else if with_catchup && r >= 97 {
            let m = rng.random_range(0..nm);
            catchup_mv[m] += rng.random_range(1..3);
            rig.catch_up(m, catchup_mv[m]);
        } else if r < 65 {
            let mut vals = vec![None; nm];
            for m in 0..nm {
                if rng.random_bool(0.8) {
                    let kind = if regime <= 1 { rng.random_range(0..10).min(6) } else { rng.random_range(0..10) };
                    let v = match kind {
                        0..=5 => {
                            let jump = if wide && rng.random_range(0..4) == 0 { [1u64 << 62, 1 << 63, (1 << 63) + (1 << 62), u64::MAX / 3][rng.random_range(0..4)] } else { rng.random_range(1..3) };
                            cur[m] = cur[m].saturating_add(jump).min(u64::MAX - 8);
                            if wide {
                                rig.out.c.inc("heartbeat_values_from_the_wide_range");
                            }
                            cur[m]
                        }
                        6 => cur[m],
                        7 => cur[m].saturating_sub(rng.random_range(1..5)).max(1),
                        8 => 1,
                        _ => rng.random_range(1..=cur[m]),
                    };
                    vals[m] = Some(v);
                }
            }
            rig.arrive(&vals);
        } else {
            rig.eval();
        }
        if !rig.out.findings.is_empty() {
            break;
        }
    }
    rig.eval();
    if namesakes {
        rig.out.c.inc("histories_with_namesake_members");
    }
    rig.out.sample = json!({"history": i, "phi": cfg.phi, "window": cfg.window, "max_interval_s": cfg.max_interval.as_secs_f64(), "initial_interval_s": cfg.initial_interval.as_secs_f64(), "members": nm, "events": events});
    rig.out
}

/// Exact-boundary witnesses with dyadic values: every float operation is exact.
pub async fn exact_witness(phi: f64, interval: Duration, window: usize, n_beats: usize) -> HistOut {
    let cfg = FdCfg { phi, window, max_interval: interval, initial_interval: interval, dead_grace: None };
    let mut rig = Rig::new(cfg.clone(), 1, format!("exact-boundary witness phi {phi} interval {interval:?} window {window} beats {n_beats}"));
    let x = cid(&member(0, false));
    let mut v = 10;
    for k in 0..n_beats {
        v += 1;
        rig.arrive(&[Some(v)]);
        if k + 1 < n_beats {
            tokio::time::advance(interval).await;
            if phi >= 1.0 {
                // evaluated exactly one interval after the last fresh value, before the next one arrives
                rig.eval();
            }
        }
    }
    // move to exactly phi x interval after the last fresh value
    let target = interval.mul_f64(phi);
    tokio::time::advance(target).await;
    rig.eval();
    rig.out.c.inc("exact_boundary_points");
    let live: Vec<ChitchatId> = rig.main.cc.live_nodes().cloned().collect();
    if phi == 1.0 && n_beats >= 3 && !live.contains(&x) {
        // elapsed / mean == threshold exactly, gaps all equal to b = a = initial interval: C11's steady-heartbeat
        // guarantee at its boundary (the generic accuracy monitor keeps a 1e-9 margin and makes no claim here)
        rig.fail(&["C11"], "fd.exact_boundary_live", format!("gaps of exactly {interval:?}, evaluation exactly {target:?} after the last fresh value, threshold {phi}: must still be live"));
    }
    tokio::time::advance(Duration::from_nanos(1)).await;
    rig.eval();
    rig.out.c.inc("exact_boundary_points");
    let dead: Vec<ChitchatId> = rig.main.cc.dead_nodes().cloned().collect();
    if !dead.contains(&x) {
        rig.fail(&["C10"], "fd.exact_boundary_dead", format!("gaps of exactly {interval:?} (= max_interval = initial_interval), evaluation {target:?} + 1ns after the last fresh value, threshold {phi}: must be dead"));
    }
    rig.out.hash = mix3(phi.to_bits(), interval.as_nanos() as u64, (window * 1000 + n_beats) as u64);
    rig.out
}

pub fn check(args: &Args, prop: &str) -> Outcome {
    let mut ev = Evidence::new(args, "exploration");
    let deadline = Deadline::new(args.tier.pick(200, 3000));
    let seed = args.seed;
    let mut violations = vec![];
    // 1. exact-boundary witnesses
    let rt = paused_rt();
    let mut nw = 0;
    let miri_w = args.has("--miri");
    for phi in [1.0, 2.0, 4.0, 0.5] {
        for interval in [Duration::from_secs(1), Duration::from_millis(500), Duration::from_secs(4)] {
            for (window, beats) in [(1000usize, 3usize), (1000, 40), (2, 7), (1, 5), (10, 10), (10, 11)] {
                if miri_w && !(window == 2 && interval == Duration::from_secs(1)) {
                    continue;
                }
                let out = rt.block_on(exact_witness(phi, interval, window, beats));
                nw += 1;
                ev.counters.merge(&out.c);
                ev.distinct.insert(out.hash);
                for f in out.findings {
                    if f.is_for(prop) {
                        violations.push((f, json!({"engine": "E6-exact-witness", "phi": phi, "interval_ms": interval.as_millis() as u64, "window": window, "beats": beats})));
                    }
                }
            }
        }
    }
    ev.evaluations += nw;
    // 2. generated histories
    let miri = args.has("--miri");
    let n = if miri { 12 } else { args.n(200_000, 3_000_000) };
    let max_events = if miri { 30 } else { args.tier.pick(120, 400) };
    let res = par_run(n, args.threads, |i| {
        if deadline.expired() {
            return None;
        }
        let rt = paused_rt();
        // every 500th history is long (up to 2,000 arrivals)
        let me = if i % 500 == 0 && !miri { 2000 } else { max_events };
        Some(catch(|| rt.block_on(random_history(seed, i, me, !miri))))
    });
    let done = res.len() as u64;
    for (i, r) in res {
        ev.evaluations += 1;
        match r {
            Ok(out) => {
                ev.counters.merge(&out.c);
                ev.distinct.insert(out.hash);
                if ev.samples.len() < 4 {
                    ev.samples.push(out.sample.clone());
                }
                for f in out.findings {
                    if f.is_for(prop) {
                        violations.push((f, json!({"engine": "E6", "seed": seed, "history": i, "config_and_size": out.sample})));
                    } else {
                        ev.counters.inc("findings_for_other_properties");
                    }
                }
            }
            Err(p) => {
                ev.counters.inc("harness_panics");
                if ev.inconclusive.len() < 3 {
                    ev.inconclusive.push(format!("history {i}: harness panic {p}"));
                }
            }
        }
    }
    if done < n {
        ev.inconclusive.push(format!("wall-clock watchdog: {} of {n} histories not generated", n - done));
    }
    ev.rule = "history = seeded configuration (phi 0.5-16, window 1/2/10/1000, intervals over three orders of magnitude) + up to 120/400 (every 500th: 2,000) events: SYN digests carrying fresh / equal / lower / duplicated heartbeat values for 1-3 members at gaps 0, 1 ns, << / = / > max_interval, steady and jittered stretches, bursts, silences beyond the deadline, interleaved with evaluations; a twin node receives only the fresh values; distinct = hash of the (value, freshness) sequence; plus 72 exact-boundary witnesses with dyadic intervals".into();
    ev.assumptions = vec!["claims are asserted with a relative margin of 1e-9 (+1us) outside the boundary; the exact-boundary witnesses use dyadic values so that float arithmetic is exact".into(), "heartbeats reach the node through SYN digests only (the quantifier of C11)".into()];
    if prop == "C11" && !args.has("--miri") {
        // whole simulated clusters: heartbeats relayed by third parties, deltas, resets, restarts (the monitor "no member
        // is live before two strictly increasing values were delivered since its copy was created")
        let e1 = crate::e1::run_e1(args, "C11", &deadline);
        ev.evaluations += e1.traces;
        ev.counters.merge(&e1.stats);
        ev.distinct.extend(e1.distinct.iter());
        violations.extend(e1.findings);
        if let Some(s) = e1.samples.first() {
            ev.samples.push(json!({"e1_trace": s}));
        }
    }
    let trigger = if prop == "C10" { "c10_deadline_claims" } else { "c11_accuracy_claims" };
    let nothing = ev.counters.get(trigger) == 0;
    Outcome { evidence: ev, violations, nothing_observed: nothing }
}
