//! E2 — small-scope enumeration of (sender copy, receiver copy) pairs (C14, C20) and of
//! (copy, delta) pairs (C04). Every copy is installed in a REAL node through real message
//! processing; every delta crosses the node boundary as bytes.

use std::collections::BTreeMap;
use std::sync::atomic::Ordering;

use chitchat::{ChitchatId, ChitchatMessage, Serializable};
use serde_json::{json, Value};

use crate::codec::{self, WId, WMsg, WNodeDelta, WOp};
use crate::common::*;
use crate::craft::*;

type Kv = (String, String, u64, u8);

fn xid() -> WId {
    WId { node_id: "x".into(), generation: 0, addr: addr(9500) }
}

/// Same member under a 58-byte node id: its node header alone takes about 95 bytes, so that the smallest admissible
/// budgets (100..) cut the delta right after the header, before the first entry.
fn xid_long() -> WId {
    WId { node_id: format!("x-{}", "long-node-id-".repeat(4)) + "abcd", generation: 0, addr: addr(9500) }
}

/// Deterministic family of entry layouts for a copy at (gc, mv).
/// Entries have versions <= mv; tombstones only above the watermark (a consistent copy).
pub fn layouts(gc: u64, mv: u64, n: usize) -> Vec<Vec<Kv>> {
    let val = |v: u64| format!("value-of-version-{v}-padding-padding-padding");
    let st = |v: u64, want: u8| if want != 0 && v > gc { want } else { 0 };
    let mut out: Vec<Vec<Kv>> = vec![];
    // L0: no entries (max version reached through a max-version op)
    out.push(vec![]);
    if mv >= 1 {
        // L1: the three highest versions, all Set
        let mut l = vec![];
        for (i, v) in (mv.saturating_sub(2).max(1)..=mv).enumerate() {
            l.push((format!("k{i}"), val(v), v, 0));
        }
        out.push(l);
        // L2: same versions with a deleted and a TTL entry where the watermark allows it
        let mut l = vec![];
        for (i, v) in (mv.saturating_sub(2).max(1)..=mv).enumerate() {
            let s = st(v, [2u8, 1, 1][i % 3]);
            l.push((format!("k{i}"), if s == 1 { String::new() } else { val(v) }, v, s));
        }
        out.push(l);
        // L3: a single Set entry at version 1 (empty tail above it)
        out.push(vec![("a".into(), val(1), 1, 0)]);
        // L4: spaced versions 1, mid, mv
        let mid = (mv + 1) / 2;
        let mut l: Vec<Kv> = vec![("a".into(), val(1), 1, 0)];
        if mid > 1 {
            let s = st(mid, 1);
            l.push(("ab".into(), if s == 1 { String::new() } else { val(mid) }, mid, s));
        }
        if mv > mid {
            l.push(("".into(), val(mv), mv, st(mv, 2)));
        }
        out.push(l);
        // L5: one entry at mv only
        out.push(vec![("k".into(), val(mv), mv, st(mv, 1))]);
    }
    out.truncate(n.max(1));
    out
}

fn read_copy(node: &TestNode, id: &ChitchatId) -> Option<(u64, u64, BTreeMap<String, (u64, u64, u8)>)> {
    node.cc.node_state(id).map(|ns| (ns.last_gc_version(), ns.max_version(), ns.key_values_including_deleted().map(|(k, v)| (k.to_string(), (v.version, hash_str(&v.value), st_code(v)))).collect()))
}

pub struct PairOut {
    pub findings: Vec<Finding>,
    pub c: Counters,
    pub hashes: Vec<u64>,
}

/// One (sender copy, receiver copy) pair: the receiver's real SYN, the sender's real SYN-ACK,
/// the receiver's processing of it; then every truncation of the sender's delta.
fn run_pair(s: (u64, u64), r: (u64, u64), ls: &[Kv], lr: &[Kv], long_id: bool, out: &mut PairOut) {
    let x = if long_id { xid_long() } else { xid() };
    let xc = cid(&x);
    let who = format!("sender (gc {}, mv {}) {} entries / receiver (gc {}, mv {}) {} entries", s.0, s.1, ls.len(), r.0, r.1, lr.len());
    let mut sender = mk_node(simple_id("s", 9501), &NodeOpts::default());
    if let Err(e) = install_member(&mut sender.cc, "c", &x, 5, s.0, ls, s.1) {
        if e.contains("PANIC") {
            out.findings.push(Finding::new(&["C04", "C14"], "pair.install_panic", format!("{who}: building the sender's copy through honest messages: {e}")));
        }
        out.c.inc("install_failed");
        return;
    }
    let base_receiver = || -> Option<TestNode> {
        let mut n = mk_node(simple_id("r", 9502), &NodeOpts::default());
        install_member(&mut n.cc, "c", &x, 5, r.0, lr, r.1).ok()?;
        Some(n)
    };
    let Some(mut recv) = base_receiver() else {
        out.c.inc("install_failed");
        return;
    };
    let sc = read_copy(&sender, &xc).unwrap();
    let rc = read_copy(&recv, &xc).unwrap();
    if (sc.0, sc.1) != s || (rc.0, rc.1) != r {
        // the installation did not reach the intended frontier (e.g. watermark 0 with mv 0): use what is there
        out.c.inc("pairs_with_adjusted_frontier");
    }
    let (s, r) = ((sc.0, sc.1), (rc.0, rc.1));
    out.c.inc("pairs");
    out.hashes.push(mix3(mix(s.0, s.1), mix(r.0, r.1 + ((long_id as u64) << 32)), mix(hash_of(&sc.2), hash_of(&rc.2))));
    let ahead = s.1 > r.1;
    let reset_expected = ahead && r.0 < s.0 && r.1 < s.0;
    // receiver's real SYN -> sender's real SYN-ACK
    let syn = recv.cc.verif_create_syn_message().serialize_to_vec();
    let reply = match catch(|| feed(&mut sender.cc, &syn)) {
        Ok(Ok(Some(x))) => x,
        Ok(_) => {
            out.findings.push(Finding::new(&["C14"], "pair.no_synack", format!("{who}: no SYN-ACK")));
            return;
        }
        Err(p) => {
            out.findings.push(Finding::new(&["C04", "C14"], "pair.sender_panic", format!("{who}: sender panicked: {p}")));
            return;
        }
    };
    // the sender's copy as of the moment it computed the delta (processing the SYN must not have changed it,
    // but that is another property's business)
    let sc = read_copy(&sender, &xc).unwrap_or(sc);
    let s = (sc.0, sc.1);
    let ahead = s.1 > r.1;
    let reset_expected = ahead && r.0 < s.0 && r.1 < s.0;
    let (wmsg, _, _) = codec::decode_msg(&reply.1).expect("independent decode of a real SYN-ACK");
    let nodes = codec::group_ops(codec::msg_ops(&wmsg)).unwrap_or_default();
    let nd: Option<&WNodeDelta> = nodes.iter().find(|n| n.id == x);
    match (ahead, nd) {
        (true, None) => out.findings.push(Finding::new(&["C14"], "pair.missing_delta", format!("{who}: the sender is ahead but the SYN-ACK carries nothing for the member"))),
        (false, Some(n)) => out.findings.push(Finding::new(&["C14"], "pair.useless_delta", format!("{who}: the sender is not ahead but sent a delta (from {}, max {})", n.from, n.max_version))),
        _ => {}
    }
    if let Some(n) = nd {
        let from_expected = if reset_expected { 0 } else { r.1 };
        if n.from != from_expected || n.last_gc != s.0 {
            out.findings.push(Finding::new(&["C14"], "pair.start_version", format!("{who}: delta starts at {} with watermark {} (expected start {from_expected}, watermark {})", n.from, n.last_gc, s.0)));
        }
        // with an ample budget the delta reaches the sender's highest entry above the start, or, when there is
        // none, announces the sender's max version
        let expected_max = sc.2.values().map(|e| e.0).filter(|v| *v > from_expected).max().unwrap_or(s.1);
        if n.max_version != expected_max {
            out.findings.push(Finding::new(&["C14", "C07"], "pair.truncated_without_need", format!("{who}: a tiny delta stops at {} (expected {expected_max}; sender max version {})", n.max_version, s.1)));
        }
    }
    // deliver the unchanged answer, then every truncation of it, each to a fresh copy of the receiver
    let mut streams: Vec<(String, Vec<u8>)> = vec![("full SYN-ACK".into(), reply.1.clone())];
    if ahead {
        let digest_bytes = {
            let (w, _, _) = codec::decode_msg(&syn).unwrap();
            codec::encode_digest(codec::msg_digest(&w))
        };
        let mut seen = std::collections::HashSet::new();
        // every truncation point: budgets from the smallest admissible one (100) up to the whole delta (identical
        // streams are delivered once); under the long node id this includes the cut right after the member's header
        for budget in (100usize..=130).chain([140, 160, 180, 215, 230, 250, 270, 290, 330, 400, 470]) {
            if let Ok(Ok(stream)) = catch(|| sender.cc.verif_compute_delta(&digest_bytes, budget)) {
                if seen.insert(stream.clone()) {
                    let mut ack = vec![];
                    ack.extend_from_slice(&codec::MAGIC.to_le_bytes());
                    ack.push(0);
                    ack.push(2);
                    ack.extend_from_slice(&stream);
                    streams.push((format!("ACK cut at budget {budget}"), ack));
                }
            }
        }
    }
    for (k, (label, bytes)) in streams.iter().enumerate() {
        let mut rv = if k == 0 { std::mem::replace(&mut recv, mk_node(simple_id("unused", 1), &NodeOpts::default())) } else { base_receiver().unwrap() };
        let (w, _, _) = codec::decode_msg(bytes).expect("independent decode");
        let nodes = codec::group_ops(codec::msg_ops(&w)).unwrap_or_default();
        let Some(n) = nodes.iter().find(|n| n.id == x) else {
            if k > 0 {
                out.c.inc("truncations_without_member_header");
            }
            continue;
        };
        out.c.inc("deliveries");
        if n.kvs.is_empty() && !n.had_set_max {
            out.c.inc("header_only_node_deltas_delivered");
            if reset_expected {
                out.c.inc("header_only_reset_deltas_delivered");
            }
        }
        if k > 0 {
            out.c.inc("truncated_deliveries");
        }
        let cb0 = rv.cb.load(Ordering::SeqCst);
        let before = read_copy(&rv, &xc).unwrap();
        match catch(|| feed(&mut rv.cc, bytes)) {
            Ok(Ok(_)) => {}
            Ok(Err(e)) => {
                out.findings.push(Finding::new(&["C14", "C08"], "pair.undecodable", format!("{who} [{label}]: receiver cannot decode the sender's delta: {e}")));
                continue;
            }
            Err(p) => {
                out.findings.push(Finding::new(&["C04", "C14"], "pair.receiver_panic", format!("{who} [{label}]: receiver panicked: {p}")));
                continue;
            }
        }
        let after = read_copy(&rv, &xc).unwrap();
        let cb = rv.cb.load(Ordering::SeqCst) - cb0;
        let empty = n.kvs.is_empty() && !n.had_set_max;
        let b = (before.0, before.1);
        let a = (after.0, after.1);
        // a wipe is observed (watermark became the delta's and nothing of the old copy survived unless the delta
        // carries it too), not inferred from the watermark alone
        let was_reset = n.from == 0 && a.0 > b.0 && a.0 == n.last_gc && !before.2.iter().any(|(k, e0)| after.2.get(k).map(|e1| e1.0 == e0.0).unwrap_or(false) && !n.kvs.iter().any(|kv| &kv.key == k && kv.version == e0.0));
        if a < b {
            out.findings.push(Finding::new(&["C04", "C14"], "pair.frontier_decreased", format!("{who} [{label}]: receiver frontier {b:?} -> {a:?}")));
        }
        if (!empty || reset_expected) && a <= b {
            out.findings.push(Finding::new(&["C14"], "pair.refused", format!("{who} [{label}]: the unchanged receiver did not advance ({b:?} -> {a:?}) on the delta (watermark {}, from {}, max {}, {} key-values) computed from its own digest", n.last_gc, n.from, n.max_version, n.kvs.len())));
        }
        if reset_expected != was_reset {
            out.findings.push(Finding::new(&["C14"], "pair.reset_disagreement", format!("{who} [{label}]: reset expected = {reset_expected} (receiver max version and watermark both below the sender's watermark), receiver wiped = {was_reset} ({b:?} -> {a:?})")));
        }
        if was_reset {
            out.c.inc("resets_observed");
            // after a wipe the copy is exactly the delta's entries (tombstones at or below the new watermark may be dropped)
            let want: BTreeMap<String, (u64, u64, u8)> = n.kvs.iter().filter(|kv| !(kv.status != 0 && kv.version <= n.last_gc)).map(|kv| (kv.key.clone(), (kv.version, hash_str(&kv.value), kv.status))).collect();
            if after.2 != want || a.0 != n.last_gc {
                out.findings.push(Finding::new(&["C14", "C02"], "pair.reset_content", format!("{who} [{label}]: after the wipe the receiver holds {:?}, the delta carried {:?}; watermark {} vs {}", after.2.iter().map(|(k, v)| (k.clone(), v.0)).collect::<Vec<_>>(), want.iter().map(|(k, v)| (k.clone(), v.0)).collect::<Vec<_>>(), a.0, n.last_gc)));
            }
        } else if !empty && a > b {
            if a.1 != n.max_version {
                out.findings.push(Finding::new(&["C14"], "pair.max_version", format!("{who} [{label}]: receiver max version {} after a delta up to {}", a.1, n.max_version)));
            }
        }
        // C20 on the same delivery
        let want_cb = if was_reset { 1 } else { 0 };
        out.c.inc("c20_messages_checked");
        if cb != want_cb {
            out.findings.push(Finding::new(&["C20"], "pair.catchup_count", format!("{who} [{label}]: receiver reset = {was_reset} but the catch-up callback ran {cb} times")));
        }
    }
}

pub fn run_c14_scope(args: &Args, deadline: &Deadline) -> (PairOut, u64, bool) {
    let max = 7u64;
    let (nls, nlr) = args.tier.pick((3usize, 2usize), (6usize, 4usize));
    let mut jobs: Vec<((u64, u64), (u64, u64))> = vec![];
    for gs in 0..=max {
        for ms in 0..=max {
            for gr in 0..=max {
                for mr in 0..=max {
                    jobs.push(((gs, ms), (gr, mr)));
                }
            }
        }
    }
    let res = par_run(jobs.len() as u64, args.threads, |i| {
        if deadline.expired() {
            return None;
        }
        let rt = paused_rt();
        let _g = rt.enter();
        let (s, r) = jobs[i as usize];
        let mut out = PairOut { findings: vec![], c: Counters::default(), hashes: vec![] };
        for ls in layouts(s.0, s.1, nls) {
            for lr in layouts(r.0, r.1, nlr) {
                run_pair(s, r, &ls, &lr, false, &mut out);
                run_pair(s, r, &ls, &lr, true, &mut out);
            }
        }
        Some(out)
    });
    let complete = res.len() == jobs.len();
    let mut total = PairOut { findings: vec![], c: Counters::default(), hashes: vec![] };
    for (_, o) in res {
        total.c.merge(&o.c);
        total.hashes.extend(o.hashes);
        total.findings.extend(o.findings);
    }
    (total, jobs.len() as u64, complete)
}

pub fn check_c14(args: &Args) -> Outcome {
    let mut ev = Evidence::new(args, "exploration");
    let deadline = Deadline::new(args.tier.pick(240, 3000));
    let (out, njobs, complete) = run_c14_scope(args, &deadline);
    ev.evaluations = out.c.get("pairs");
    ev.counters.merge(&out.c);
    ev.counters.add("frontier_pairs_enumerated", njobs);
    for h in &out.hashes {
        ev.distinct.insert(*h);
    }
    let mut violations = vec![];
    for f in out.findings {
        if f.is_for("C14") {
            violations.push((f, json!({"engine": "E2", "scope": "frontiers 0..7"})));
        } else {
            ev.counters.inc("findings_for_other_properties");
        }
    }
    // random larger scopes: sequential handshakes of E1's fair phase are checked the same way
    let e1 = crate::e1::run_e1(args, "C14", &deadline);
    ev.evaluations += e1.traces;
    ev.counters.merge(&e1.stats);
    ev.distinct.extend(e1.distinct.iter());
    violations.extend(e1.findings);
    ev.samples = vec![
        json!({"sender": {"gc": 5, "mv": 2, "layout": layouts(5, 2, 6).get(1)}, "receiver": {"gc": 0, "mv": 4, "layout": layouts(0, 4, 6).get(2)}, "note": "one of the enumerated pairs (watermark above max version on the sender)"}),
        json!({"e1_sample": e1.samples.first()}),
    ];
    ev.exhaustive = Some(complete);
    if !complete {
        ev.inconclusive.push("wall-clock watchdog: the frontier cross product was not completed".into());
    }
    ev.rule = "exhaustive over all (sender watermark, sender max version, receiver watermark, receiver max version) in 0..7 (4,096 frontier pairs, incl. watermark above max version) x a deterministic family of entry layouts (quick 3x2, thorough 6x4: empty, all-Set, deleted/TTL above the watermark, empty tail, spaced versions, prefix-related and empty keys) x {the full SYN-ACK, every distinct truncation of the delta}; exhaustive:true refers to the frontier cross product only; plus the monitored handshakes of seeded E1 traces; distinct = hash of (frontiers, both copies' contents)".into();
    ev.assumptions = vec!["copies are installed through real message processing (SYN digest + crafted ACKs)".into(), "sender and receiver copies are chosen independently (agreement depends on frontiers only)".into()];
    let nothing = ev.counters.get("deliveries") == 0;
    Outcome { evidence: ev, violations, nothing_observed: nothing }
}

// ------------------------------------------------------------------------------ C04 scope

/// All deltas of the small scope: watermark, start, up to 3 ascending key-values or a max-version tail.
fn scope_deltas(max: u64) -> Vec<(u64, u64, Vec<(u64, u8)>, Option<u64>)> {
    let mut shapes: Vec<(Vec<u64>, Option<u64>)> = vec![(vec![], None)];
    for t in 0..=max {
        shapes.push((vec![], Some(t)));
    }
    for a in 1..=max {
        shapes.push((vec![a], None));
        for b in a + 1..=max {
            shapes.push((vec![a, b], None));
            for c in b + 1..=max {
                shapes.push((vec![a, b, c], None));
            }
        }
    }
    // a few dishonest shapes: a max-version tail after key-values (above / below them)
    shapes.push((vec![2, 4], Some(6)));
    shapes.push((vec![3], Some(3)));
    shapes.push((vec![5], Some(1)));
    let mut out = vec![];
    for gc in 0..=max {
        for from in 0..=max {
            for (si, (vers, tail)) in shapes.iter().enumerate() {
                let kvs: Vec<(u64, u8)> = vers.iter().enumerate().map(|(j, v)| (*v, ((si + j + gc as usize + from as usize) % 3) as u8)).collect();
                out.push((gc, from, kvs, *tail));
            }
        }
    }
    out
}

pub fn run_c04_scope(args: &Args, deadline: &Deadline) -> (PairOut, bool) {
    let max = 6u64;
    let nl = args.tier.pick(3usize, 6usize);
    let deltas = scope_deltas(max);
    let mut copies: Vec<(u64, u64, Vec<Kv>)> = vec![];
    for gc in 0..=max {
        for mv in 0..=max {
            for l in layouts(gc, mv, nl) {
                copies.push((gc, mv, l));
            }
        }
    }
    let stride = args.tier.pick(3usize, 1usize); // quick: every third delta per copy, rotating with the copy index
    let res = par_run(copies.len() as u64, args.threads, |ci| {
        if deadline.expired() {
            return None;
        }
        let rt = paused_rt();
        let _g = rt.enter();
        let (gc, mv, lay) = &copies[ci as usize];
        let x = xid();
        let xc = cid(&x);
        let mut out = PairOut { findings: vec![], c: Counters::default(), hashes: vec![] };
        for (di, (dgc, from, kvs, tail)) in deltas.iter().enumerate() {
            if (di + ci as usize) % stride != 0 {
                continue;
            }
            let mut node = mk_node(simple_id("r", 9502), &NodeOpts::default());
            if let Err(e) = install_member(&mut node.cc, "c", &x, 5, *gc, lay, *mv) {
                if e.contains("PANIC") {
                    out.findings.push(Finding::new(&["C04", "C09"], "scope.panic", format!("building the copy (gc {gc}, mv {mv}) through honest messages: {e}")));
                }
                out.c.inc("install_failed");
                continue;
            }
            let before = read_copy(&node, &xc).unwrap();
            let mut ops = vec![WOp::Node { id: x.clone(), last_gc: *dgc, from: *from }];
            for (j, (v, st)) in kvs.iter().enumerate() {
                ops.push(WOp::Kv { key: ["k0", "k1", "a", "new"][(j + *v as usize) % 4].to_string(), value: if *st == 1 { String::new() } else { format!("d{v}") }, version: *v, status: *st });
            }
            if let Some(t) = tail {
                ops.push(WOp::SetMax(*t));
            }
            let bytes = if di % 2 == 0 { ack_bytes(&ops) } else { synack_bytes(&[], &ops) };
            let cb0 = node.cb.load(Ordering::SeqCst);
            out.c.inc("copy_delta_pairs");
            out.hashes.push(mix3(mix(*gc, *mv), hash_of(&before.2), mix3(*dgc, *from, hash_of(&(kvs, tail)))));
            match catch(|| feed(&mut node.cc, &bytes)) {
                Ok(Ok(_)) => {}
                Ok(Err(e)) if e.starts_with("PANIC") => {
                    // (feed reports a panic inside the crate under test as an error string)
                    out.findings.push(Finding::new(&["C04", "C09"], "scope.panic", format!("copy (gc {gc}, mv {mv}) {:?} + delta (gc {dgc}, from {from}, kvs {kvs:?}, tail {tail:?}): {e}", lay.iter().map(|k| (k.2, k.3)).collect::<Vec<_>>())));
                    continue;
                }
                Ok(Err(_)) => {
                    out.c.inc("deltas_rejected_by_decoder");
                    continue;
                }
                Err(p) => {
                    out.findings.push(Finding::new(&["C04", "C09"], "scope.panic", format!("copy (gc {gc}, mv {mv}) {:?} + delta (gc {dgc}, from {from}, kvs {kvs:?}, tail {tail:?}): panic {p}", lay.iter().map(|k| (k.2, k.3)).collect::<Vec<_>>())));
                    continue;
                }
            }
            let after = read_copy(&node, &xc).unwrap();
            let (b, a) = ((before.0, before.1), (after.0, after.1));
            let wiped = a.0 > b.0;
            if a < b {
                out.findings.push(Finding::new(&["C04"], "scope.frontier_decreased", format!("copy {b:?} + delta (gc {dgc}, from {from}, kvs {kvs:?}, tail {tail:?}) -> {a:?}")));
            }
            if a != b {
                out.c.inc("deltas_that_changed_the_copy");
            }
            if wiped {
                out.c.inc("wipes");
            } else {
                for (k, e0) in &before.2 {
                    if let Some(e1) = after.2.get(k) {
                        if e1.0 < e0.0 {
                            out.findings.push(Finding::new(&["C04"], "scope.key_version_decreased", format!("copy {b:?} key {k:?} version {} -> {} by delta (gc {dgc}, from {from}, kvs {kvs:?}) without a wipe", e0.0, e1.0)));
                        }
                    } else {
                        out.findings.push(Finding::new(&["C04"], "scope.key_lost_without_wipe", format!("copy {b:?} lost key {k:?} by delta (gc {dgc}, from {from}, kvs {kvs:?}, tail {tail:?}) without a wipe")));
                    }
                }
            }
            let cb = node.cb.load(Ordering::SeqCst) - cb0;
            // the callback is owed for a rebuilt copy: watermark became the delta's, delta starts from 0, nothing old survived
            let rebuilt = wiped && *from == 0 && a.0 == *dgc && !before.2.iter().any(|(k, e0)| after.2.get(k).map(|e1| e1.0 == e0.0).unwrap_or(false) && !kvs.iter().enumerate().any(|(j, (v, _))| ["k0", "k1", "a", "new"][(j + *v as usize) % 4] == k && *v == e0.0));
            if cb != rebuilt as usize {
                out.findings.push(Finding::new(&["C20"], "scope.catchup_count", format!("copy {b:?} + delta (gc {dgc}, from {from}, kvs {kvs:?}, tail {tail:?}): rebuilt = {rebuilt}, callback ran {cb} times")));
            }
        }
        Some(out)
    });
    let complete = res.len() == copies.len();
    let mut total = PairOut { findings: vec![], c: Counters::default(), hashes: vec![] };
    for (_, o) in res {
        total.c.merge(&o.c);
        total.hashes.extend(o.hashes);
        total.findings.extend(o.findings);
    }
    total.c.add("scope_copies", copies.len() as u64);
    total.c.add("scope_deltas", deltas.len() as u64);
    (total, complete && stride == 1)
}

/// Adds the E2 parts to an E1 outcome (C04: copy x delta scope; C20: both scopes' callback counts).
pub fn extend_outcome(args: &Args, mut o: Outcome) -> Outcome {
    let prop = args.prop.clone();
    let deadline = Deadline::new(args.tier.pick(200, 3000));
    let (p, exhaustive) = run_c04_scope(args, &deadline);
    o.evidence.evaluations += p.c.get("copy_delta_pairs");
    o.evidence.counters.merge(&p.c);
    o.evidence.distinct.extend(p.hashes.iter());
    o.evidence.extra.insert("small_scope_exhaustive".into(), json!(exhaustive));
    for f in p.findings {
        if f.is_for(&prop) {
            o.violations.push((f, json!({"engine": "E2-copy-x-delta", "scope": "versions and watermarks 0..6"})));
        }
    }
    if prop == "C04" {
        // the external catch-up entry point moves frontiers too
        let (v, c) = crate::catchup::run_for(args, "C04", &deadline);
        o.evidence.evaluations += c.get("calls");
        o.evidence.counters.add("catchup_calls", c.get("calls"));
        o.evidence.counters.add("catchup_calls_applied", c.get("calls_applied"));
        o.violations.extend(v);
    }
    if prop == "C20" {
        let (q, _, _) = run_c14_scope(args, &deadline);
        o.evidence.evaluations += q.c.get("deliveries");
        o.evidence.counters.merge(&q.c);
        o.evidence.distinct.extend(q.hashes.iter());
        for f in q.findings {
            if f.is_for("C20") {
                o.violations.push((f, json!({"engine": "E2-pairs", "scope": "frontiers 0..7"})));
            }
        }
    }
    o.evidence.rule.push_str(" | E2 part: every copy with watermark and max version in 0..6 (x entry layouts) x every delta with watermark, start in 0..6 and up to 3 ascending key-values or a max-version tail (honest or not), delivered as bytes to a real node; thorough enumerates all, quick every third delta per copy");
    o.evidence.samples.push(json!({"e2_copy": {"gc": 4, "mv": 2, "entries": layouts(4, 2, 6).get(1)}, "e2_delta": {"last_gc": 0, "from": 2, "kvs": [[3, 0]], "tail": Value::Null}}));
    o
}

#[allow(dead_code)]
fn _unused(_: ChitchatMessage, _: WMsg) {}
