//! E8 — peer selection (C17): the real selection function, through the facade, over every
//! subset structure of the peer / live / dead / seed sets and scripted generator outputs.

use std::collections::HashSet;
use std::convert::Infallible;
use std::net::SocketAddr;

use chitchat::verif::select_nodes_for_gossip;
use rand::prelude::*;
use serde_json::{json, Value};

use crate::common::*;

/// Scripted generator: cycles through a list of 64-bit outputs (next_u32 takes the high half).
pub struct Scripted {
    vals: Vec<u64>,
    i: usize,
    pub draws: usize,
}
impl Scripted {
    fn next(&mut self) -> u64 {
        let v = self.vals[self.i % self.vals.len()];
        self.i += 1;
        self.draws += 1;
        v
    }
}
impl rand::TryRng for Scripted {
    type Error = Infallible;
    fn try_next_u32(&mut self) -> Result<u32, Infallible> {
        Ok((self.next() >> 32) as u32)
    }
    fn try_next_u64(&mut self) -> Result<u64, Infallible> {
        Ok(self.next())
    }
    fn try_fill_bytes(&mut self, dst: &mut [u8]) -> Result<(), Infallible> {
        for b in dst.iter_mut() {
            *b = (self.next() >> 56) as u8;
        }
        Ok(())
    }
}

fn scripts() -> Vec<(&'static str, Vec<u64>)> {
    vec![
        ("all-min", vec![0]),
        ("all-max", vec![u64::MAX]),
        ("mid", vec![u64::MAX / 2]),
        ("min-max", vec![0, u64::MAX]),
        ("max-min", vec![u64::MAX, 0]),
        ("ramp", vec![0, u64::MAX / 4, u64::MAX / 2, u64::MAX / 4 * 3, u64::MAX]),
        ("just-below-one", vec![u64::MAX - (1 << 11), 1 << 11]),
    ]
}

pub struct SelOut {
    pub findings: Vec<Finding>,
    pub c: Counters,
}

fn check_one(masks: &[u8], gen_name: &str, rng: &mut dyn FnMut(HashSet<SocketAddr>, HashSet<SocketAddr>, HashSet<SocketAddr>, HashSet<SocketAddr>) -> Result<(Vec<SocketAddr>, Option<SocketAddr>, Option<SocketAddr>), String>, out: &mut SelOut) {
    let mut peers = HashSet::new();
    let mut live = HashSet::new();
    let mut dead = HashSet::new();
    let mut seeds = HashSet::new();
    for (i, m) in masks.iter().enumerate() {
        let a = addr(20_000 + i as u16);
        if m & 1 != 0 {
            peers.insert(a);
        }
        if m & 2 != 0 {
            live.insert(a);
        }
        if m & 4 != 0 {
            dead.insert(a);
        }
        if m & 8 != 0 {
            seeds.insert(a);
        }
    }
    let what = format!("peers {:?} live {:?} dead {:?} seeds {:?} generator {gen_name}", ports(&peers), ports(&live), ports(&dead), ports(&seeds));
    out.c.inc("selections");
    let (nodes, dead_pick, seed_pick) = match rng(peers.clone(), live.clone(), dead.clone(), seeds.clone()) {
        Ok(x) => x,
        Err(p) => {
            out.findings.push(Finding::new(&["C17"], "select.panic", format!("{what}: panicked: {p}")));
            return;
        }
    };
    let pool = if live.is_empty() { &peers } else { &live };
    if nodes.len() > 3 {
        out.findings.push(Finding::new(&["C17"], "select.too_many", format!("{what}: {} targets", nodes.len())));
    }
    let uniq: HashSet<&SocketAddr> = nodes.iter().collect();
    if uniq.len() != nodes.len() {
        out.findings.push(Finding::new(&["C17"], "select.repeated_target", format!("{what}: targets {:?}", nodes.iter().map(|a| a.port()).collect::<Vec<_>>())));
    }
    if let Some(bad) = nodes.iter().find(|n| !pool.contains(n)) {
        out.findings.push(Finding::new(&["C17"], "select.target_outside_pool", format!("{what}: target {} is not in the {} set", bad.port(), if live.is_empty() { "peer" } else { "live" })));
    }
    if !pool.is_empty() && nodes.is_empty() {
        out.findings.push(Finding::new(&["C17"], "select.no_target", format!("{what}: candidates exist but no peer is targeted (a cold start or partition would be permanent)")));
    }
    if let Some(d) = dead_pick {
        out.c.inc("dead_picks");
        if !dead.contains(&d) {
            out.findings.push(Finding::new(&["C17"], "select.dead_outside_set", format!("{what}: dead pick {}", d.port())));
        }
    }
    if let Some(s) = seed_pick {
        out.c.inc("seed_picks");
        if !seeds.contains(&s) {
            out.findings.push(Finding::new(&["C17"], "select.seed_outside_set", format!("{what}: seed pick {}", s.port())));
        }
    }
    if live.is_empty() && !seeds.is_empty() {
        out.c.inc("forced_seed_cases");
        let contacted = seed_pick.is_some() || nodes.iter().any(|n| seeds.contains(n));
        if !contacted {
            out.findings.push(Finding::new(&["C17"], "select.seed_not_contacted", format!("{what}: no live peer is known and a seed exists, but no seed is contacted")));
        }
    }
    if dead.len() > live.len() {
        out.c.inc("forced_dead_cases");
        if dead_pick.is_none() {
            out.findings.push(Finding::new(&["C17"], "select.dead_not_contacted", format!("{what}: dead peers outnumber live ones but no dead peer is contacted")));
        }
    }
}

fn ports(s: &HashSet<SocketAddr>) -> Vec<u16> {
    let mut v: Vec<u16> = s.iter().map(|a| a.port() - 20_000).collect();
    v.sort();
    v
}

/// multisets of `k` masks out of 0..16 in non-decreasing order, indexed
fn multisets(k: usize) -> Vec<Vec<u8>> {
    fn rec(k: usize, from: u8, cur: &mut Vec<u8>, out: &mut Vec<Vec<u8>>) {
        if cur.len() == k {
            out.push(cur.clone());
            return;
        }
        for m in from..16 {
            cur.push(m);
            rec(k, m, cur, out);
            cur.pop();
        }
    }
    let mut out = vec![];
    rec(k, 0, &mut vec![], &mut out);
    out
}

pub fn check(args: &Args) -> Outcome {
    let mut ev = Evidence::new(args, "exploration");
    let deadline = Deadline::new(args.tier.pick(200, 3000));
    let miri = args.has("--miri");
    let max_size = if miri { 2 } else { 6usize };
    let mut structures: Vec<Vec<u8>> = vec![];
    for k in 0..=max_size {
        structures.extend(multisets(k));
    }
    let n = structures.len() as u64;
    let seed = args.seed;
    let scr = scripts();
    let res = par_run(n, args.threads, |i| {
        if deadline.expired() {
            return None;
        }
        let masks = &structures[i as usize];
        let mut out = SelOut { findings: vec![], c: Counters::default() };
        for (name, vals) in &scr {
            for rot in 0..vals.len().min(2) {
                let mut g = Scripted { vals: vals.clone(), i: rot, draws: 0 };
                let mut call = |p, l, d, s| catch(|| select_nodes_for_gossip(&mut g, p, l, d, s));
                check_one(masks, name, &mut call, &mut out);
            }
        }
        for r in 0..args.tier.pick(2u64, 8u64) {
            let mut g = StdRng::seed_from_u64(mix3(seed, i, r));
            let mut call = |p, l, d, s| catch(|| select_nodes_for_gossip(&mut g, p, l, d, s));
            check_one(masks, "seeded StdRng", &mut call, &mut out);
        }
        Some(out)
    });
    let complete = res.len() as u64 == n;
    let mut violations: Vec<(Finding, Value)> = vec![];
    for (i, out) in res {
        ev.evaluations += out.c.get("selections");
        ev.counters.merge(&out.c);
        ev.distinct.insert(hash_of(&structures[i as usize]));
        for f in out.findings {
            violations.push((f, json!({"engine": "E8", "membership_masks": structures[i as usize]})));
        }
    }
    // the pools the real gossip round builds and hands over (scripted transport, paused clock)
    if !miri {
        let (f, c) = crate::server::pools_part(args);
        ev.counters.merge(&c);
        ev.evaluations += c.get("server_rounds_checked");
        for x in f {
            if x.is_for("C17") {
                violations.push((x, json!({"engine": "E10-pools"})));
            } else {
                ev.inconclusive.push(format!("server pools: {}", x.detail));
            }
        }
    }
    ev.samples = vec![
        json!({"membership_masks(bit0 peer, bit1 live, bit2 dead, bit3 seed)": structures.get(structures.len() / 2), "generators": scr.iter().map(|s| s.0).collect::<Vec<_>>()}),
        json!({"membership_masks": structures.last()}),
    ];
    ev.exhaustive = Some(complete);
    if !complete {
        ev.inconclusive.push("wall-clock watchdog: enumeration not completed".into());
    }
    ev.rule = format!("exhaustive over the subset structure of the four sets for universes of 0..{max_size} addresses (every multiset of membership masks: {n} structures) x 7 scripted generators (all-min, all-max, mid, alternating, ramp, just-below-one; two phases each) + seeded StdRng draws; distinct = distinct structures; each call is checked against all clauses of the statement; plus the caller: real gossip servers on a scripted transport whose peers heartbeat, fall silent, are scheduled for deletion and forgotten, the SYN destinations of every round judged against the live / dead / known sets read just before it");
    ev.assumptions = vec!["the sets are passed to the real function unchanged (they need not be consistent with each other)".into()];
    let nothing = ev.counters.get("selections") == 0;
    Outcome { evidence: ev, violations, nothing_observed: nothing }
}
