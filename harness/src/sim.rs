//! E1 — the cluster simulator: the shared step relation over REAL `Chitchat` instances, with
//! datagrams moved as bytes, a virtual clock, and the monitors of C01-C05, C12, C13, C16, C20
//! (+ wire cross-checks for C07/C08, the random half of C14, replica GC of C06) running after
//! every step.

use std::collections::{BTreeMap, BTreeSet, HashMap, HashSet};
use std::sync::atomic::{AtomicUsize, Ordering};
use std::sync::Arc;
use std::time::Duration;

use chitchat::verif::{message_view, set_shuffle_seed};
use chitchat::{Chitchat, ChitchatConfig, ChitchatId, ChitchatMessage, Deserializable, FailureDetectorConfig, NodeState, Serializable};
use rand::prelude::*;
use serde_json::{json, Value};
use tokio::sync::watch;
use tokio::time::Instant;

use crate::codec::{self, WMsg, WNodeDelta};
use crate::common::*;

pub const READY_KEY: &str = "READY";

#[derive(Clone, Copy, Debug, PartialEq, Eq)]
pub enum Profile {
    /// long dead-node grace, big values (MTU truncation), staggered GC, resets
    Replication,
    /// short dead-node grace, crashes, partitions, restarts, small values
    Membership,
    /// both at once (convergence bound not asserted)
    Mixed,
    /// two clusters with different ids sharing the message fabric
    TwoClusters,
    /// membership profile with the READY predicate and TTL/delete flips of the predicate key
    Watch,
}

/// The property whose check is running (None: every finding ends a trace).
pub static FOCUS: std::sync::Mutex<Option<String>> = std::sync::Mutex::new(None);

pub fn set_focus(prop: &str) {
    *FOCUS.lock().unwrap() = Some(prop.to_string());
}

#[derive(Clone, Debug)]
pub struct SimCfg {
    pub profile: Profile,
    pub n_slots: usize,
    pub cluster_of: Vec<usize>,
    pub cluster_ids: Vec<String>,
    pub tomb_grace: Duration,
    pub dead_grace: Duration,
    pub phi: f64,
    pub window: usize,
    pub max_interval: Duration,
    pub initial_interval: Duration,
    pub keys: Vec<String>,
    pub big_values: bool,
    pub predicate: bool,
    pub crashes: bool,
    pub steps: usize,
    pub late_join: bool,
    /// no key-value writes at all: every delta is empty, no compression happens (FFI-free, for Miri)
    pub no_data: bool,
}

impl SimCfg {
    pub fn generate(profile: Profile, rng: &mut StdRng) -> SimCfg {
        let n_slots = match profile {
            Profile::TwoClusters => rng.random_range(2..=6),
            _ => rng.random_range(2..=5),
        };
        let (cluster_of, cluster_ids) = if profile == Profile::TwoClusters {
            const IDS: [(&str, &str); 23] = [
                // an id and what a well-meant transformation of it looks like (escaping for logs, URL encoding, Unicode
                // normalisation): still two different ids
                ("team\tblue", "team\\tblue"),
                ("say \"hi\"", "say \\\"hi\\\""),
                ("back\\slash", "back\\\\slash"),
                ("nul\u{0}", "nul\\0"),
                ("line\n", "line\\n"),
                ("é", "e\u{301}"),
                ("a b", "a%20b"),
                ("tab\t", "tab\\u{9}"),
                ("", "a"),
                ("a", "A"),
                ("a", "ab"),
                ("ab", "a"),
                ("cluster", "cluster "),
                ("c", "d"),
                ("é", "e"),
                // long ids that differ only after a long common prefix / only in the last byte
                ("quickwit-production-eu-west-1-search-blue", "quickwit-production-eu-west-1-search-green"),
                ("0123456789abcdef0123456789abcdef0123456789abcdef0123456789abcdef-x", "0123456789abcdef0123456789abcdef0123456789abcdef0123456789abcdef-y"),
                ("prod", "prod-eu"),
                ("prod\u{0}", "prod"),
                ("prod", "prod\n"),
                ("blue ", "blue"),
                ("", " "),
                (" green", "\tgreen"),
            ];
            let (x, y) = IDS[rng.random_range(0..IDS.len())];
            // every fourth trace: ids of 300 bytes differing in the last one
            let long_a = format!("{}a", "z".repeat(299));
            let long_b = format!("{}b", "z".repeat(299));
            let (x, y) = if rng.random_range(0..4) == 0 { (long_a.as_str(), long_b.as_str()) } else { (x, y) };
            let na = rng.random_range(1..n_slots.min(4));
            let cl: Vec<usize> = (0..n_slots).map(|i| if i < na { 0 } else { 1 }).collect();
            (cl, vec![x.to_string(), y.to_string()])
        } else {
            (vec![0; n_slots], vec!["c".to_string()])
        };
        let short_dead = matches!(profile, Profile::Membership | Profile::Mixed | Profile::Watch) || (profile == Profile::TwoClusters && rng.random_bool(0.5));
        let dead_grace = if short_dead { Duration::from_secs(2 * rng.random_range(10..=30)) } else { Duration::from_secs(3600) };
        let tomb_grace = Duration::from_secs(rng.random_range(20..=60));
        let big_values = matches!(profile, Profile::Replication | Profile::Mixed) && rng.random_bool(0.7);
        let mut keys: Vec<String> = ["a", "ab", "b", "k", "", "é"].iter().map(|s| s.to_string()).collect();
        keys.truncate(rng.random_range(3..=6));
        let predicate = profile == Profile::Watch || (profile == Profile::Membership && rng.random_bool(0.3));
        if predicate {
            keys.push(READY_KEY.to_string());
        }
        let max_interval = Duration::from_secs(rng.random_range(2..=10));
        SimCfg {
            profile,
            n_slots,
            cluster_of,
            cluster_ids,
            tomb_grace,
            dead_grace,
            phi: [2.0, 3.0, 4.0, 8.0][rng.random_range(0..4)],
            window: [3, 5, 10, 1000][rng.random_range(0..4)],
            max_interval,
            initial_interval: Duration::from_secs(rng.random_range(1..=5)),
            keys,
            big_values,
            predicate,
            crashes: !matches!(profile, Profile::Replication) || rng.random_bool(0.3),
            steps: rng.random_range(50..=400),
            late_join: rng.random_bool(0.3),
            no_data: false,
        }
    }
    pub fn to_json(&self) -> Value {
        json!({
            "profile": format!("{:?}", self.profile), "n_slots": self.n_slots, "cluster_of": self.cluster_of, "cluster_ids": self.cluster_ids,
            "tomb_grace_s": self.tomb_grace.as_secs(), "dead_grace_s": self.dead_grace.as_secs(), "phi": self.phi, "window": self.window,
            "max_interval_s": self.max_interval.as_secs(), "initial_interval_s": self.initial_interval.as_secs(), "keys": self.keys,
            "big_values": self.big_values, "predicate": self.predicate, "crashes": self.crashes, "steps": self.steps, "late_join": self.late_join,
        })
    }
}

/// One write in the ground-truth ledger.
#[derive(Clone, Debug, PartialEq)]
pub struct W {
    pub ver: u64,
    pub vh: u64,
    pub vlen: usize,
    pub st: u8,
}

pub struct Member {
    pub id: ChitchatId,
    pub slot: usize,
    pub cluster: usize,
    pub ledger: BTreeMap<String, Vec<W>>,
    pub mv: u64,
    pub gc: u64,
    pub hb: u64,
    pub running: bool,
}

#[derive(Clone, Debug, PartialEq)]
pub struct Ent {
    pub ver: u64,
    pub vh: u64,
    pub vlen: usize,
    pub st: u8,
    /// virtual instant at which this (key, version) first appeared on this node
    pub seen_at: Instant,
}

#[derive(Clone, Debug, PartialEq)]
pub struct CopyS {
    pub hb: u64,
    pub gc: u64,
    pub mv: u64,
    pub kvs: BTreeMap<String, Ent>,
}
impl CopyS {
    pub fn same_content(&self, o: &CopyS) -> bool {
        self.gc == o.gc && self.mv == o.mv && self.kvs.len() == o.kvs.len() && self.kvs.iter().zip(o.kvs.iter()).all(|((k1, e1), (k2, e2))| k1 == k2 && e1.ver == e2.ver && e1.vh == e2.vh && e1.st == e2.st)
    }
}

#[derive(Clone, Debug, Default)]
pub struct Snapshot {
    pub copies: BTreeMap<usize, CopyS>,
    pub live: BTreeSet<usize>,
    pub dead: BTreeSet<usize>,
    pub sched: BTreeSet<usize>,
    pub unknown: Vec<String>,
}

pub struct Slot {
    pub cc: Option<Chitchat>,
    pub member: usize,
    pub up: bool,
    pub started: bool,
    pub gen: u64,
    pub cb: Arc<AtomicUsize>,
    pub watch_rx: Option<watch::Receiver<BTreeMap<ChitchatId, NodeState>>>,
    pub snap: Snapshot,
    /// shadow of "first classified dead at" per member (C12)
    pub t_dead: BTreeMap<usize, Instant>,
    /// heartbeat stored when the member was removed (C12)
    pub removed_hb: BTreeMap<usize, u64>,
    /// number of strictly increasing heartbeat values delivered since the copy was (re-)created
    pub fresh_vals: BTreeMap<usize, u32>,
    pub max_hb_delivered: BTreeMap<usize, u64>,
    /// (live member -> mv) at the previous evaluation (C13)
    pub prev_eval_live: Option<BTreeMap<usize, u64>>,
    /// (member, key) removed from this node by a Gc step or a reset since the key was last visible (KF-2 signature)
    pub evals: u64,
}

#[derive(Clone)]
pub struct Dgram {
    pub from: usize,
    pub to: usize,
    pub bytes: Arc<Vec<u8>>,
    pub seq: u64,
    pub is_dup: bool,
    pub sent_step: usize,
}

#[derive(Clone, Debug)]
pub enum Ctx {
    Write,
    Deliver { msg: WMsg, cb_delta: usize, from: usize },
    Gc,
    Eval,
    Beat,
    Start,
    /// the external catch-up entry point was called for `member` (a copy may be created, unless it was removed)
    CatchUp { member: usize, was_removed: bool },
    Other,
}

pub struct World {
    pub cfg: SimCfg,
    pub seed: u64,
    pub rng: StdRng,
    pub slots: Vec<Slot>,
    pub members: Vec<Member>,
    pub by_id: HashMap<ChitchatId, usize>,
    pub bag: Vec<Dgram>,
    pub cut: BTreeSet<(usize, usize)>,
    pub findings: Vec<Finding>,
    pub stats: Counters,
    pub log: Vec<String>,
    pub step_no: usize,
    pub seq: u64,
    pub taint: HashSet<(usize, String, u64)>,
    pub t0: Instant,
    pub aborted: bool,
    pub deliver_hash: u64,
    pub state_hashes: HashSet<u64>,
    pub nontrivial: bool,
    /// (node, member, key) whose visible predicate key disappeared without a version change (KF-2)
    pub kf2_sig: HashSet<(usize, usize)>,
    pub quiet: bool,
    pub known_seen: HashSet<u64>,
    /// the most recent datagrams that were delivered (for the hostile-input engine)
    pub history: Vec<Arc<Vec<u8>>>,
}

fn vh(s: &str) -> u64 {
    hash_str(s)
}

impl World {
    pub fn new(cfg: SimCfg, seed: u64) -> World {
        set_shuffle_seed(mix(seed, 0x5eed));
        let n = cfg.n_slots;
        let mut w = World {
            cfg,
            seed,
            rng: rng_from(mix(seed, 1)),
            slots: Vec::new(),
            members: Vec::new(),
            by_id: HashMap::new(),
            bag: Vec::new(),
            cut: BTreeSet::new(),
            findings: Vec::new(),
            stats: Counters::default(),
            log: Vec::new(),
            step_no: 0,
            seq: 0,
            taint: HashSet::new(),
            t0: Instant::now(),
            aborted: false,
            deliver_hash: 0,
            state_hashes: HashSet::new(),
            nontrivial: false,
            kf2_sig: HashSet::new(),
            quiet: false,
            known_seen: HashSet::new(),
            history: Vec::new(),
        };
        for _ in 0..n {
            w.slots.push(Slot {
                cc: None,
                member: usize::MAX,
                up: false,
                started: false,
                gen: 0,
                cb: Arc::new(AtomicUsize::new(0)),
                watch_rx: None,
                snap: Snapshot::default(),
                t_dead: BTreeMap::new(),
                removed_hb: BTreeMap::new(),
                fresh_vals: BTreeMap::new(),
                max_hb_delivered: BTreeMap::new(),
                prev_eval_live: None,
                evals: 0,
            });
        }
        w
    }

    pub fn now_s(&self) -> f64 {
        (Instant::now() - self.t0).as_secs_f64()
    }

    pub fn note(&mut self, s: String) {
        if self.log.len() > 4000 {
            self.log.drain(0..2000);
        }
        self.log.push(format!("#{} t={:.3} {}", self.step_no, self.now_s(), s));
    }

    /// true when a finding that is not a listed known finding was recorded for the property being decided (ends the
    /// trace). Findings for OTHER properties do not end it: a change that first trips another property's monitor
    /// (say, a frontier that goes back: C04) must still be followed to its consequence for this one (the livelock: C01).
    pub fn fatal(&self) -> bool {
        let focus = FOCUS.lock().unwrap().clone();
        self.findings.iter().any(|f| f.known.is_none() && focus.as_deref().map(|p| f.is_for(p)).unwrap_or(true))
    }

    /// At most 50 findings are kept per trace, but findings for the property being decided are never crowded out by
    /// those for other properties.
    fn admit(&self, f: &Finding) -> bool {
        if self.findings.len() < 50 {
            return true;
        }
        let focus = FOCUS.lock().unwrap().clone();
        match focus.as_deref() {
            Some(p) => f.is_for(p) && self.findings.iter().filter(|g| g.is_for(p)).count() < 50,
            None => false,
        }
    }

    pub fn fail(&mut self, props: &[&'static str], kind: &str, detail: String) {
        let f = Finding::new(props, kind, detail);
        if self.admit(&f) {
            self.findings.push(f);
        }
    }

    fn node_id_string(&self, slot: usize) -> String {
        // clusters deliberately reuse addresses (ports) but not node ids
        if self.seed % 5 == 3 && self.cfg.profile != Profile::TwoClusters {
            // namesakes: slots 2k and 2k+1 share node id (and, until one restarts, generation): their ids differ by
            // the address only
            return format!("n{}", slot / 2);
        }
        format!("n{}", slot)
    }

    /// Starts (or restarts, under generation+1) the node of `slot`.
    pub fn start(&mut self, slot: usize) {
        let cluster = self.cfg.cluster_of[slot];
        let gen = self.slots[slot].gen;
        // two clusters share addresses: slot i of cluster B reuses the port of slot (i mod |A|)
        let port = if self.cfg.profile == Profile::TwoClusters && cluster == 1 {
            let na = self.cfg.cluster_of.iter().filter(|c| **c == 0).count();
            100 + ((slot - na) % na.max(1)) as u16
        } else {
            100 + slot as u16
        };
        // address families vary per trace and slot: plain IPv4, IPv6, IPv4-mapped IPv6
        let a: std::net::SocketAddr = match (self.seed / 7 + slot as u64) % 4 {
            0 => format!("[2001:db8::{:x}]:{port}", slot + 1).parse().unwrap(),
            1 => format!("[::ffff:10.0.0.{}]:{port}", slot + 1).parse().unwrap(),
            _ => addr(port),
        };
        // half of the namesake traces: the two namesakes also share IP and port and differ by the address FORM only
        // (a.b.c.d:p vs [::ffff:a.b.c.d]:p): still two distinct ids, two distinct members
        let a: std::net::SocketAddr = if self.seed % 5 == 3 && (self.seed / 5) % 2 == 0 && self.cfg.profile != Profile::TwoClusters {
            let k = slot / 2;
            if slot % 2 == 0 { format!("10.0.0.{}:{}", k + 1, 100 + 2 * k).parse().unwrap() } else { format!("[::ffff:10.0.0.{}]:{}", k + 1, 100 + 2 * k).parse().unwrap() }
        } else {
            a
        };
        let id = ChitchatId::new(self.node_id_string(slot), gen, a);
        let cb = Arc::new(AtomicUsize::new(0));
        let cb2 = cb.clone();
        let predicate: Option<Box<dyn Fn(&NodeState) -> bool + Send>> =
            if self.cfg.predicate { Some(Box::new(|ns: &NodeState| ns.get(READY_KEY) == Some("true"))) } else { None };
        let config = ChitchatConfig {
            chitchat_id: id.clone(),
            cluster_id: self.cfg.cluster_ids[cluster].clone(),
            gossip_interval: Duration::from_secs(1),
            listen_addr: id.gossip_advertise_addr,
            seed_nodes: vec![],
            failure_detector_config: FailureDetectorConfig {
                phi_threshold: self.cfg.phi,
                sampling_window_size: self.cfg.window,
                max_interval: self.cfg.max_interval,
                initial_interval: self.cfg.initial_interval,
                dead_node_grace_period: self.cfg.dead_grace,
            },
            marked_for_deletion_grace_period: self.cfg.tomb_grace,
            catchup_callback: Some(Box::new(move || {
                cb2.fetch_add(1, Ordering::SeqCst);
            })),
            extra_liveness_predicate: predicate,
        };
        let seeds = watch::channel(Default::default()).1;
        let cc = Chitchat::with_chitchat_id_and_seeds(config, seeds, vec![]);
        let midx = self.members.len();
        self.members.push(Member { id: id.clone(), slot, cluster, ledger: BTreeMap::new(), mv: 0, gc: 0, hb: 0, running: true });
        self.by_id.insert(id, midx);
        let s = &mut self.slots[slot];
        s.watch_rx = if slot % 2 == 0 { Some(cc.live_nodes_watcher()) } else { None };
        s.cc = Some(cc);
        s.member = midx;
        s.up = true;
        s.started = true;
        s.cb = cb;
        s.snap = Snapshot::default();
        s.t_dead.clear();
        s.removed_hb.clear();
        s.fresh_vals.clear();
        s.max_hb_delivered.clear();
        s.prev_eval_live = None;
        s.evals = 0;
        self.note(format!("start slot{slot} gen{gen} as member{midx}"));
        self.observe(slot, Ctx::Start);
    }

    pub fn crash(&mut self, slot: usize) {
        if !self.slots[slot].up {
            return;
        }
        let m = self.slots[slot].member;
        self.refresh_owner(slot);
        self.members[m].running = false;
        self.slots[slot].up = false;
        self.slots[slot].cc = None;
        self.note(format!("crash slot{slot} (member{m})"));
        self.nontrivial = true;
    }

    pub fn restart(&mut self, slot: usize) {
        if self.slots[slot].up || !self.slots[slot].started {
            return;
        }
        self.slots[slot].gen += 1;
        self.stats.inc("restarts");
        self.start(slot);
    }

    pub fn up_slots(&self) -> Vec<usize> {
        (0..self.slots.len()).filter(|i| self.slots[*i].up).collect()
    }

    /// Reads the owner's own frontier/heartbeat into the member table.
    fn refresh_owner(&mut self, slot: usize) {
        let m = self.slots[slot].member;
        if let Some(cc) = self.slots[slot].cc.as_ref() {
            if let Some(ns) = cc.node_state(&self.members[m].id) {
                self.members[m].mv = ns.max_version();
                self.members[m].gc = ns.last_gc_version();
                self.members[m].hb = ns.heartbeat().into();
            }
        }
    }

    pub fn take_snapshot(&self, slot: usize) -> Snapshot {
        let cc = self.slots[slot].cc.as_ref().expect("snapshot of a down node");
        let old = &self.slots[slot].snap;
        let now = Instant::now();
        let mut snap = Snapshot::default();
        for (id, ns) in cc.node_states() {
            let Some(&m) = self.by_id.get(id) else {
                snap.unknown.push(format!("{id:?}"));
                continue;
            };
            let oldc = old.copies.get(&m);
            let mut kvs = BTreeMap::new();
            for (k, v) in ns.key_values_including_deleted() {
                let st = st_code(v);
                let h = vh(&v.value);
                let seen_at = match oldc.and_then(|c| c.kvs.get(k)) {
                    Some(e) if e.ver == v.version && e.st == st => e.seen_at,
                    _ => now,
                };
                kvs.insert(k.to_string(), Ent { ver: v.version, vh: h, vlen: v.value.len(), st, seen_at });
            }
            snap.copies.insert(m, CopyS { hb: ns.heartbeat().into(), gc: ns.last_gc_version(), mv: ns.max_version(), kvs });
        }
        let idx = |id: &ChitchatId| self.by_id.get(id).copied();
        for id in cc.live_nodes() {
            match idx(id) {
                Some(m) => {
                    snap.live.insert(m);
                }
                None => snap.unknown.push(format!("live:{id:?}")),
            }
        }
        for id in cc.dead_nodes() {
            match idx(id) {
                Some(m) => {
                    snap.dead.insert(m);
                }
                None => snap.unknown.push(format!("dead:{id:?}")),
            }
        }
        for id in cc.scheduled_for_deletion_nodes() {
            if let Some(m) = idx(id) {
                snap.sched.insert(m);
            }
        }
        snap
    }

    // ------------------------------------------------------------------ the monitors

    /// Runs every monitor on node `slot` after a step, then stores the new snapshot.
    pub fn observe(&mut self, slot: usize, ctx: Ctx) {
        if self.slots[slot].cc.is_none() {
            return;
        }
        self.refresh_owner(slot);
        let mut new = self.take_snapshot(slot);
        let old = std::mem::take(&mut self.slots[slot].snap);
        let me = self.slots[slot].member;
        let now = Instant::now();
        // a reset re-creates every entry of the copy: its entries are (re-)received now
        if matches!(ctx, Ctx::Deliver { .. }) {
            for (m, c1) in new.copies.iter_mut() {
                let gc0 = old.copies.get(m).map(|c| c.gc).unwrap_or(0);
                if c1.gc > gc0 {
                    for e in c1.kvs.values_mut() {
                        e.seen_at = now;
                    }
                }
            }
        }
        let is_start = matches!(ctx, Ctx::Start);

        // --- C03 / C16: unknown members
        for u in &new.unknown {
            self.fail(&["C03", "C16"], "integrity.unknown_member", format!("slot{slot} holds a member nobody ever was: {u}"));
        }
        // --- C16: members of another cluster
        for (&m, _) in &new.copies {
            if self.members[m].cluster != self.members[me].cluster {
                self.fail(&["C16"], "isolation.leak", format!("slot{slot} (cluster {}) holds member{m} {:?} of cluster {}", self.members[me].cluster, self.members[m].id, self.members[m].cluster));
            }
        }
        // --- C12: classification invariants that hold at every moment
        if let Some(x) = new.live.intersection(&new.dead).next() {
            self.fail(&["C12"], "member.live_and_dead", format!("slot{slot}: member{x} is both live and dead"));
        }
        if !new.live.contains(&me) || !new.copies.contains_key(&me) || new.dead.contains(&me) {
            self.fail(&["C12"], "member.self_not_live", format!("slot{slot}: own member{me} live={} known={} dead={}", new.live.contains(&me), new.copies.contains_key(&me), new.dead.contains(&me)));
        }

        // --- per copy: C04 monotonicity, C03 integrity, C02 exactness
        let delta_nodes: Vec<WNodeDelta> = match &ctx {
            Ctx::Deliver { msg, .. } => codec::group_ops(codec::msg_ops(msg)).unwrap_or_default(),
            _ => vec![],
        };
        let delta_for = |m: usize| -> Option<&WNodeDelta> { delta_nodes.iter().find(|nd| self.by_id.get(&cid(&nd.id)) == Some(&m)) };
        let mut resets = 0usize;
        let mut new_findings: Vec<Finding> = vec![];
        let mut new_taints: Vec<(usize, String, u64)> = vec![];
        for (&m, c1) in &new.copies {
            let c0 = old.copies.get(&m);
            let (gc0, mv0) = c0.map(|c| (c.gc, c.mv)).unwrap_or((0, 0));
            let changed = c0.map(|c| !c.same_content(c1)).unwrap_or(true);
            if (c1.gc, c1.mv) < (gc0, mv0) {
                new_findings.push(Finding::new(&["C04"], "mono.frontier_decreased", format!("slot{slot} member{m}: (gc,mv) ({gc0},{mv0}) -> ({},{}) in {}", c1.gc, c1.mv, ctx_name(&ctx))));
            }
            let wiped = c1.gc > gc0 && matches!(ctx, Ctx::Deliver { .. });
            if let Some(c0) = c0 {
                for (k, e0) in &c0.kvs {
                    if let Some(e1) = c1.kvs.get(k) {
                        if e1.ver < e0.ver && !wiped {
                            new_findings.push(Finding::new(&["C04"], "mono.key_version_decreased", format!("slot{slot} member{m} key {k:?}: {} -> {} without a reset", e0.ver, e1.ver)));
                        }
                    }
                }
            }
            if matches!(ctx, Ctx::Deliver { .. }) && c1.gc > gc0 {
                // a reset is observed as: the watermark rose to the watermark of a node delta that starts from version 0,
                // and no entry of the old copy survived that the delta does not itself carry (the copy was rebuilt)
                let rebuilt = match delta_for(m) {
                    Some(nd) if nd.from == 0 && nd.last_gc == c1.gc => {
                        let survivors = c0.map(|c0| c0.kvs.iter().filter(|(k, e0)| c1.kvs.get(*k).map(|e1| e1.ver == e0.ver).unwrap_or(false) && !nd.kvs.iter().any(|kv| &kv.key == *k && kv.version == e0.ver)).count()).unwrap_or(0);
                        survivors == 0
                    }
                    _ => false,
                };
                if rebuilt {
                    resets += 1;
                    if c0.is_none() {
                        self.stats.inc("resets_of_just_created_copy");
                    }
                } else {
                    // the watermark of a copy rose while processing a message, but not through a reset: no property
                    // forbids that by itself (exactness and the single-writer rule are judged by their own monitors)
                    self.stats.inc("watermark_rises_without_reset");
                }
            }
            if m == me {
                continue;
            }
            // heartbeat / version never ahead of the owner (C03, C05)
            if c1.mv > self.members[m].mv {
                new_findings.push(Finding::new(&["C03", "C05"], "integrity.copy_ahead_of_owner", format!("slot{slot} member{m}: copy mv {} > owner mv {}", c1.mv, self.members[m].mv)));
            }
            if c1.hb > self.members[m].hb {
                new_findings.push(Finding::new(&["C03"], "integrity.heartbeat_ahead_of_owner", format!("slot{slot} member{m}: recorded heartbeat {} > owner's {}", c1.hb, self.members[m].hb)));
            }
            if c1.gc > c1.mv {
                self.stats.inc("copies_seen_with_watermark_above_max_version");
            }
            if !changed {
                continue;
            }
            let ledger = &self.members[m].ledger;
            // C03: every entry was written by the owner with exactly that version
            for (k, e) in &c1.kvs {
                let ok = ledger.get(k).map(|ws| ws.iter().any(|w| w.ver == e.ver && w.vh == e.vh && w.vlen == e.vlen && w.st == e.st)).unwrap_or(false);
                if !ok {
                    new_findings.push(Finding::new(&["C03"], "integrity.entry_never_written", format!("slot{slot} member{m} key {k:?}: holds (ver {}, len {}, st {}) which the owner never wrote; owner wrote {:?}", e.ver, e.vlen, e.st, ledger.get(k).map(|ws| ws.iter().map(|w| (w.ver, w.vlen, w.st)).collect::<Vec<_>>()))));
                }
            }
            // KF-1 admission detection (only while processing a message)
            if let (Ctx::Deliver { .. }, Some(nd)) = (&ctx, delta_for(m)) {
                if !wiped && gc0 > mv0 && nd.last_gc < gc0 {
                    for (k, e1) in &c1.kvs {
                        let is_new = c0.and_then(|c| c.kvs.get(k)).map(|e0| e0.ver != e1.ver).unwrap_or(true);
                        if is_new && e1.st == 0 && e1.ver <= gc0 {
                            if let Some(wl) = ledger.get(k).and_then(|ws| ws.last()) {
                                if wl.st != 0 && wl.ver > e1.ver && wl.ver <= gc0 {
                                    new_taints.push((m, k.clone(), e1.ver));
                                }
                            }
                        }
                    }
                }
            }
            // C02: exact up to the frontier
            for (k, ws) in ledger {
                let w = ws.last().unwrap();
                if w.ver > c1.mv {
                    continue;
                }
                match c1.kvs.get(k) {
                    Some(e) if e.ver == w.ver && e.vh == w.vh && e.st == w.st => {}
                    None if w.st != 0 && w.ver <= c1.gc => {}
                    other => {
                        let tainted = match other {
                            Some(e) => self.taint.contains(&(m, k.clone(), e.ver)) || new_taints.iter().any(|t| t.0 == m && &t.1 == k && t.2 == e.ver),
                            None => false,
                        };
                        let mut f = Finding::new(
                            &["C02"],
                            "exact.mismatch",
                            format!(
                                "slot{slot} copy of member{m} at (gc {}, mv {}): key {k:?} holds {:?} but the owner's most recent write is (ver {}, st {}); before this step the copy was ({gc0},{mv0}); step {}; delta {:?}",
                                c1.gc,
                                c1.mv,
                                other.map(|e| (e.ver, e.vlen, e.st)),
                                w.ver,
                                w.st,
                                ctx_name(&ctx),
                                delta_for(m).map(|nd| (nd.last_gc, nd.from, nd.max_version, nd.kvs.len()))
                            ),
                        );
                        if tainted {
                            f.known = Some("KF-1");
                        }
                        new_findings.push(f);
                    }
                }
            }
        }
        for t in new_taints {
            if self.taint.insert(t) {
                self.stats.inc("kf1_admissions");
                self.nontrivial = true;
            }
        }
        // copies that vanished
        for (&m, c0) in &old.copies {
            if !new.copies.contains_key(&m) {
                if matches!(ctx, Ctx::Eval) && m != me {
                    // legitimate only after the full grace period (checked in M-member below)
                    self.slots[slot].removed_hb.insert(m, c0.hb);
                    self.slots[slot].fresh_vals.remove(&m);
                    self.slots[slot].max_hb_delivered.remove(&m);
                    self.stats.inc("members_removed");
                    self.nontrivial = true;
                } else {
                    new_findings.push(Finding::new(&["C12", "C04"], "member.copy_vanished", format!("slot{slot}: copy of member{m} disappeared in {}", ctx_name(&ctx))));
                }
            }
        }
        // copies that appeared
        for (&m, _c1) in &new.copies {
            if !old.copies.contains_key(&m) && !is_start {
                let legit = match &ctx {
                    Ctx::Deliver { msg, .. } => {
                        let hb_in_digest = codec::msg_digest(msg).iter().find(|e| self.by_id.get(&cid(&e.id)) == Some(&m)).map(|e| e.heartbeat);
                        match (hb_in_digest, self.slots[slot].removed_hb.get(&m)) {
                            (None, _) => Err("no digest entry for it in the processed message".to_string()),
                            (Some(h), Some(&rh)) if h <= rh => Err(format!("digest heartbeat {h} is not above the heartbeat {rh} known at removal")),
                            (Some(_), Some(_)) => {
                                self.stats.inc("members_recreated_by_higher_heartbeat");
                                Ok(())
                            }
                            (Some(_), None) => Ok(()),
                        }
                    }
                    Ctx::CatchUp { member, was_removed } if *member == m => {
                        if *was_removed {
                            Err("re-created by an external catch-up call although it had been garbage collected".to_string())
                        } else {
                            Ok(())
                        }
                    }
                    other => Err(format!("appeared in a {} step", ctx_name(other))),
                };
                if let Err(why) = legit {
                    new_findings.push(Finding::new(&["C12"], "member.recreated", format!("slot{slot}: copy of member{m} created: {why}")));
                }
                self.slots[slot].removed_hb.remove(&m);
            }
        }

        // --- step specific
        match &ctx {
            Ctx::Deliver { msg, cb_delta, from } => {
                // C05 single writer
                if let (Some(o0), Some(o1)) = (old.copies.get(&me), new.copies.get(&me)) {
                    if !o0.same_content(o1) {
                        new_findings.push(Finding::new(&["C05"], "owner.changed_by_gossip", format!("slot{slot}: own state changed while processing a {} from slot{from}: ({},{}) {} keys -> ({},{}) {} keys", codec::msg_kind(msg), o0.gc, o0.mv, o0.kvs.len(), o1.gc, o1.mv, o1.kvs.len())));
                    }
                    // the node's heartbeat moves through its own activity only: it never goes back, and it never jumps
                    // to (or past) a value the message carried for the node itself
                    let carried = codec::msg_digest(msg).iter().find(|e| self.by_id.get(&cid(&e.id)) == Some(&me)).map(|e| e.heartbeat);
                    if o1.hb < o0.hb || (o1.hb != o0.hb + 1 && carried.map(|h| h > o0.hb && o1.hb >= h).unwrap_or(false)) {
                        new_findings.push(Finding::new(&["C05"], "owner.heartbeat_from_gossip", format!("slot{slot}: own heartbeat {} -> {} while processing one message whose digest carried {carried:?} for the node itself", o0.hb, o1.hb)));
                    }
                    if o1.hb != o0.hb + 1 {
                        self.stats.inc("own_heartbeat_steps_other_than_one");
                    }
                }
                // C20 catch-up callback
                let want = if resets > 0 { 1 } else { 0 };
                if matches!(msg, WMsg::SynAck { .. } | WMsg::Ack { .. }) {
                    self.stats.inc("delta_messages_processed");
                    if resets > 0 {
                        self.stats.inc("messages_with_reset");
                        self.nontrivial = true;
                        if resets > 1 {
                            self.stats.inc("messages_resetting_several_copies");
                        }
                    }
                }
                if *cb_delta != want {
                    new_findings.push(Finding::new(&["C20"], "catchup.count", format!("slot{slot}: processing a {} reset {resets} copies but the catch-up callback was invoked {cb_delta} times", codec::msg_kind(msg))));
                }
                // rejected / truncated statistics; C11-ish freshness bookkeeping for C12
                for nd in &delta_nodes {
                    if let Some(&m) = self.by_id.get(&cid(&nd.id)) {
                        let b = old.copies.get(&m).map(|c| (c.gc, c.mv)).unwrap_or((0, 0));
                        let a = new.copies.get(&m).map(|c| (c.gc, c.mv)).unwrap_or((0, 0));
                        if a == b && (nd.max_version > 0) {
                            self.stats.inc("deltas_rejected_or_noop");
                        }
                        if nd.max_version < self.members[m].mv {
                            self.stats.inc("deltas_below_owner_frontier");
                        }
                    }
                }
                // a SYN of another cluster is rejected before its digest is read: its heartbeats were not observed
                let foreign_syn = matches!(msg, WMsg::Syn { cluster_id, .. } if cluster_id != &self.cfg.cluster_ids[self.members[me].cluster]);
                for e in codec::msg_digest(msg) {
                    if foreign_syn {
                        break;
                    }
                    if let Some(&m) = self.by_id.get(&cid(&e.id)) {
                        if m == me || !new.copies.contains_key(&m) {
                            continue;
                        }
                        if std::env::var("VERIF_DEBUG_HB").ok().as_deref() == Some(&format!("{slot},{m}")) {
                            self.note(format!("   HB slot{slot} member{m}: digest hb {} stored {:?} -> {:?} (gc,mv) {:?} -> {:?}", e.heartbeat, old.copies.get(&m).map(|c| c.hb), new.copies.get(&m).map(|c| c.hb), old.copies.get(&m).map(|c| (c.gc, c.mv)), new.copies.get(&m).map(|c| (c.gc, c.mv))));
                        }
                        let s = &mut self.slots[slot];
                        let prev = s.max_hb_delivered.get(&m).copied();
                        if prev.map(|p| e.heartbeat > p).unwrap_or(true) {
                            s.max_hb_delivered.insert(m, e.heartbeat);
                            *s.fresh_vals.entry(m).or_default() += 1;
                        } else {
                            self.stats.inc("stale_heartbeats_delivered");
                        }
                    }
                }
            }
            Ctx::Gc => {
                // C06 (replica side): GC removes exactly the tombstones / TTL entries at least one grace old
                let grace = self.cfg.tomb_grace;
                for (&m, c0) in &old.copies {
                    let Some(c1) = new.copies.get(&m) else { continue };
                    let mut maxdel = c0.gc;
                    let mut collected = 0;
                    for (k, e0) in &c0.kvs {
                        let due = e0.st != 0 && now >= e0.seen_at + grace;
                        let still = c1.kvs.contains_key(k);
                        if due && still {
                            new_findings.push(Finding::new(&["C06"], "gc.kept_old_entry", format!("slot{slot} member{m} key {k:?}: status {} marked {:?} ago, grace {:?}, still present after GC", e0.st, now - e0.seen_at, grace)));
                        }
                        if !due && !still {
                            new_findings.push(Finding::new(&["C06"], "gc.removed_wrong_entry", format!("slot{slot} member{m} key {k:?}: status {} age {:?} grace {:?} removed by GC", e0.st, now - e0.seen_at, grace)));
                        }
                        if due {
                            maxdel = maxdel.max(e0.ver);
                            collected += 1;
                            if e0.st == 2 && k == READY_KEY {
                                self.kf2_sig.insert((slot, m));
                            }
                        }
                    }
                    if c1.gc != maxdel {
                        new_findings.push(Finding::new(&["C06"], "gc.watermark", format!("slot{slot} member{m}: GC watermark {} -> {}, expected {maxdel}", c0.gc, c1.gc)));
                    }
                    if c1.mv != c0.mv {
                        new_findings.push(Finding::new(&["C06", "C04"], "gc.max_version_changed", format!("slot{slot} member{m}: GC changed max version {} -> {}", c0.mv, c1.mv)));
                    }
                    if collected > 0 {
                        self.stats.inc("gc_passes_that_collected");
                        self.stats.add("entries_collected", collected);
                    }
                }
            }
            Ctx::CatchUp { member, .. } if *member == me => {
                // C05: the node was handed a peer's copy of its OWN entry; the owner is never behind a copy, so neither
                // its key-values, versions, watermark nor heartbeat may move
                if let (Some(o0), Some(o1)) = (old.copies.get(&me), new.copies.get(&me)) {
                    if !o0.same_content(o1) || o0.hb != o1.hb {
                        new_findings.push(Finding::new(&["C05"], "owner.changed_by_catch_up", format!("slot{slot}: own state changed when a peer's copy of the node's own entry was handed to the catch-up entry point: (gc {}, mv {}, hb {}) {} entries -> (gc {}, mv {}, hb {}) {} entries", o0.gc, o0.mv, o0.hb, o0.kvs.len(), o1.gc, o1.mv, o1.hb, o1.kvs.len())));
                    }
                }
            }
            Ctx::Eval => {
                self.check_membership_after_eval(slot, &old, &new, now, &mut new_findings);
                self.check_watch_after_eval(slot, &new, &mut new_findings);
            }
            _ => {}
        }
        // predicate-key bookkeeping for the KF-2 signature: a reset that drops the visible key
        if self.cfg.predicate {
            if let Ctx::Deliver { .. } = &ctx {
                for (&m, c1) in &new.copies {
                    if let Some(c0) = old.copies.get(&m) {
                        let vis0 = c0.kvs.get(READY_KEY).map(|e| e.st != 1).unwrap_or(false);
                        let vis1 = c1.kvs.get(READY_KEY).map(|e| e.st != 1).unwrap_or(false);
                        if vis0 && !vis1 && c1.mv == c0.mv {
                            self.kf2_sig.insert((slot, m));
                        }
                    }
                }
            }
        }
        for f in new_findings {
            if f.known.is_some() {
                // a known finding does not end the trace; report each occurrence site once
                if !self.known_seen.insert(hash_str(&f.detail[..f.detail.find(" holds ").unwrap_or(f.detail.len())])) {
                    continue;
                }
            }
            if self.admit(&f) {
                self.findings.push(f);
            }
        }
        // abstract state hash for the evidence
        let mut h = 0u64;
        for (m, c) in &new.copies {
            h = mix3(h, *m as u64, mix(c.gc, c.mv));
        }
        h = mix3(h, new.live.len() as u64, new.dead.len() as u64 * 31 + new.sched.len() as u64);
        self.state_hashes.insert(mix(h, slot as u64));
        self.slots[slot].snap = new;
    }

    fn check_membership_after_eval(&mut self, slot: usize, old: &Snapshot, new: &Snapshot, now: Instant, out: &mut Vec<Finding>) {
        let me = self.slots[slot].member;
        let grace = self.cfg.dead_grace;
        // every other known member is in exactly one of the two sets
        for (&m, _) in &new.copies {
            if m == me {
                continue;
            }
            let l = new.live.contains(&m);
            let d = new.dead.contains(&m);
            if l == d {
                out.push(Finding::new(&["C12"], "member.unclassified", format!("slot{slot}: after an evaluation member{m} is live={l} dead={d}")));
            }
        }
        // the node itself is no subject of its own failure detector: never dead, never scheduled for deletion
        if new.dead.contains(&me) || new.sched.contains(&me) {
            out.push(Finding::new(&["C05", "C12"], "member.self_classified_dead", format!("slot{slot}: after an evaluation the node lists ITSELF as dead={} scheduled-for-deletion={}", new.dead.contains(&me), new.sched.contains(&me))));
        }
        // dead/live members must be known
        for &m in new.live.iter().chain(new.dead.iter()) {
            if !new.copies.contains_key(&m) {
                out.push(Finding::new(&["C12"], "member.classified_but_unknown", format!("slot{slot}: member{m} is classified but has no state")));
            }
        }
        // removal exactly after the full grace
        let known_before: Vec<usize> = old.copies.keys().cloned().collect();
        for m in known_before {
            if m == me {
                continue;
            }
            let td = self.slots[slot].t_dead.get(&m).copied();
            let still = new.copies.contains_key(&m);
            match td {
                Some(td) if now >= td + grace => {
                    if still && !new.live.contains(&m) {
                        out.push(Finding::new(&["C12"], "member.not_removed_after_grace", format!("slot{slot}: member{m} dead since {:?} (grace {:?}) still known and not live after an evaluation", now - td, grace)));
                    }
                }
                other => {
                    if !still {
                        out.push(Finding::new(&["C12"], "member.removed_early", format!("slot{slot}: member{m} removed although dead for {:?} only (grace {:?})", other.map(|td| now - td), grace)));
                    }
                }
            }
        }
        // maintain the shadow of "dead since"
        let s = &mut self.slots[slot];
        s.t_dead.retain(|m, _| new.dead.contains(m));
        for &m in &new.dead {
            s.t_dead.entry(m).or_insert(now);
        }
        // live needs at least two strictly increasing heartbeat values since (re-)creation (C12 dead-to-live path, C11)
        for &m in &new.live {
            if m == me {
                continue;
            }
            let n = s.fresh_vals.get(&m).copied().unwrap_or(0);
            if n < 2 {
                out.push(Finding::new(&["C12", "C11"], "member.live_without_evidence", format!("slot{slot}: member{m} is live after {n} strictly increasing heartbeat value(s) since its copy was created")));
            }
        }
        s.evals += 1;
        self.stats.inc("evaluations");
        if !new.dead.is_empty() {
            self.stats.inc("evaluations_with_dead_members");
        }
        if !new.sched.is_empty() {
            self.stats.inc("evaluations_with_scheduled_members");
        }
    }

    fn check_watch_after_eval(&mut self, slot: usize, new: &Snapshot, out: &mut Vec<Finding>) {
        let cc = self.slots[slot].cc.as_ref().unwrap();
        let pred = self.cfg.predicate;
        let mut expected: BTreeMap<usize, u64> = BTreeMap::new();
        let mut live_mv: BTreeMap<usize, u64> = BTreeMap::new();
        for &m in &new.live {
            let Some(c) = new.copies.get(&m) else { continue };
            live_mv.insert(m, c.mv);
            let ok = if pred {
                // the predicate is evaluated through the public read API, like the configured closure
                cc.node_state(&self.members[m].id).map(|ns| ns.get(READY_KEY) == Some("true")).unwrap_or(false)
            } else {
                true
            };
            if ok {
                expected.insert(m, c.mv);
            }
        }
        // even slots keep a receiver for the whole run (has_changed is observable); odd slots hold none and look at the
        // channel with a fresh receiver after every evaluation, like a late subscriber would
        let standing = self.slots[slot].watch_rx.is_some();
        let fresh_rx = if standing { None } else { Some(cc.live_nodes_watcher()) };
        let (changed, published): (bool, BTreeMap<usize, u64>) = if let Some(rx) = self.slots[slot].watch_rx.as_mut() {
            let changed = rx.has_changed().unwrap_or(false);
            let v = rx.borrow_and_update();
            (changed, v.iter().filter_map(|(id, ns)| self.by_id.get(id).map(|m| (*m, ns.max_version()))).collect())
        } else {
            let rx = fresh_rx.unwrap();
            let v = rx.borrow();
            self.stats.inc("watch_values_read_with_a_fresh_receiver");
            (false, v.iter().filter_map(|(id, ns)| self.by_id.get(id).map(|m| (*m, ns.max_version()))).collect())
        };
        let prev = self.slots[slot].prev_eval_live.clone();
        self.stats.inc("watch_values_checked");
        if changed {
            self.stats.inc("watch_publications");
        }
        if published != expected {
            let f = Finding::new(&["C13"], "watch.value_mismatch", format!("slot{slot}: after an evaluation the watch channel lists {published:?} (member -> max version) but the live members satisfying the predicate are {expected:?}; live {live_mv:?}; has_changed={changed}"));
            out.push(f);
        }
        if let Some(prev) = prev {
            if standing && prev != live_mv && !changed {
                out.push(Finding::new(&["C13"], "watch.missed_publication", format!("slot{slot}: live set / max versions changed {prev:?} -> {live_mv:?} between two evaluations but no new value was published")));
            }
            if prev != live_mv {
                self.stats.inc("watch_changes_between_evaluations");
                self.nontrivial = true;
            }
        }
        self.slots[slot].prev_eval_live = Some(live_mv);
    }

    // ------------------------------------------------------------------ emitted datagrams

    /// Checks an emitted datagram (C07, C08, C12 mention rule) and returns it parsed.
    pub fn check_emitted(&mut self, slot: usize, msg: &ChitchatMessage, bytes: &[u8]) -> Option<WMsg> {
        self.stats.inc("datagrams_emitted");
        if bytes.len() != msg.serialized_len() {
            self.fail(&["C08"], "wire.announced_len", format!("slot{slot}: serialized_len() {} but {} bytes written", msg.serialized_len(), bytes.len()));
        }
        if bytes.len() > codec::MAX_DATAGRAM {
            self.fail(&["C07"], "wire.oversize", format!("slot{slot}: emitted a datagram of {} bytes", bytes.len()));
        }
        let (wmsg, info, used) = match codec::decode_msg(bytes) {
            Ok(x) => x,
            Err(e) => {
                self.fail(&["C08"], "wire.independent_decode_failed", format!("slot{slot}: independent decoder rejects an emitted datagram: {e}"));
                return None;
            }
        };
        if used != bytes.len() {
            self.fail(&["C08"], "wire.trailing_bytes", format!("slot{slot}: {} trailing bytes", bytes.len() - used));
        }
        if view_to_wmsg(&message_view(msg)) != wmsg {
            self.fail(&["C08"], "wire.decoders_disagree", format!("slot{slot}: independent decoding of an emitted {} differs from the message the node built", codec::msg_kind(&wmsg)));
        }
        if info.compressed + info.uncompressed > 1 {
            self.stats.inc("multi_block_datagrams");
        }
        if info.uncompressed > 0 {
            self.stats.inc("datagrams_with_uncompressed_block");
        }
        self.stats.max("max_datagram_len", bytes.len() as u64);
        // the digest on the wire is the sender's member table (minus the members scheduled for deletion): same ids,
        // same heartbeat / watermark / max version (C03: gossip never alters what it relays; C08)
        if matches!(wmsg, WMsg::Syn { .. } | WMsg::SynAck { .. }) {
            let cc = self.slots[slot].cc.as_ref().unwrap();
            let sched: Vec<ChitchatId> = cc.scheduled_for_deletion_nodes().cloned().collect();
            let mut want: Vec<(ChitchatId, u64, u64, u64)> = cc.node_states().iter().filter(|(id, _)| !sched.contains(id)).map(|(id, ns)| (id.clone(), ns.heartbeat().into(), ns.last_gc_version(), ns.max_version())).collect();
            let mut got: Vec<(ChitchatId, u64, u64, u64)> = codec::msg_digest(&wmsg).iter().map(|e| (cid(&e.id), e.heartbeat, e.last_gc, e.max_version)).collect();
            want.sort();
            got.sort();
            if want != got {
                let diff: Vec<String> = got.iter().filter(|g| !want.contains(g)).take(3).map(|g| format!("{:?} hb {} gc {} mv {}", g.0, g.1, g.2, g.3)).collect();
                self.fail(&["C03", "C08"], "digest.differs_from_member_table", format!("slot{slot}: the digest of an emitted {} ({} entries) is not the sender's member table ({} unscheduled members); entries not in the table: {diff:?}", codec::msg_kind(&wmsg), got.len(), want.len()));
            }
        }
        // C12: members dead for more than half the grace period are not mentioned any more
        let now = Instant::now();
        let half = self.cfg.dead_grace / 2;
        let tol = Duration::from_micros(1);
        let mut mentioned: Vec<usize> = vec![];
        for e in codec::msg_digest(&wmsg) {
            if let Some(&m) = self.by_id.get(&cid(&e.id)) {
                mentioned.push(m);
            }
        }
        let nodes = match codec::group_ops(codec::msg_ops(&wmsg)) {
            Ok(n) => n,
            Err(e) => {
                self.fail(&["C08", "C07"], "wire.malformed_op_stream", format!("slot{slot}: emitted op stream is not well formed: {e}"));
                vec![]
            }
        };
        for nd in &nodes {
            if let Some(&m) = self.by_id.get(&cid(&nd.id)) {
                mentioned.push(m);
            }
        }
        for m in mentioned {
            if let Some(&td) = self.slots[slot].t_dead.get(&m) {
                if now > td + half + tol {
                    self.fail(&["C12"], "member.mentioned_after_half_grace", format!("slot{slot}: a {} mentions member{m}, dead for {:?} (half grace {:?})", codec::msg_kind(&wmsg), now - td, half));
                } else {
                    self.stats.inc("dead_members_mentioned_within_half_grace");
                }
            }
        }
        // C07: each node delta is exactly the sender's entries in (from, delta max], ascending
        if !nodes.is_empty() {
            let cc = self.slots[slot].cc.as_ref().unwrap();
            let sched_now: Vec<ChitchatId> = cc.scheduled_for_deletion_nodes().cloned().collect();
            for nd in &nodes {
                let id = cid(&nd.id);
                if sched_now.contains(&id) {
                    self.findings.push(Finding::new(&["C07", "C12"], "delta.scheduled_member", format!("slot{slot}: a {} carries a delta for {id:?}, which the sender has scheduled for deletion", codec::msg_kind(&wmsg))));
                }
                let Some(ns) = cc.node_state(&id) else {
                    self.findings.push(Finding::new(&["C07", "C03"], "delta.unknown_member", format!("slot{slot}: delta about a member the sender does not hold: {id:?}")));
                    continue;
                };
                let mut want: Vec<(u64, String, u64, u8)> = ns
                    .key_values_including_deleted()
                    .filter(|(_, v)| v.version > nd.from && v.version <= nd.max_version)
                    .map(|(k, v)| (v.version, k.to_string(), vh(&v.value), st_code(v)))
                    .collect();
                want.sort();
                let got: Vec<(u64, String, u64, u8)> = nd.kvs.iter().map(|kv| (kv.version, kv.key.clone(), vh(&kv.value), kv.status)).collect();
                if want != got {
                    self.findings.push(Finding::new(&["C07"], "delta.content", format!("slot{slot}: delta for {id:?} from {} to {}: carries versions {:?} but the sender holds {:?} in that range", nd.from, nd.max_version, got.iter().map(|g| g.0).collect::<Vec<_>>(), want.iter().map(|g| g.0).collect::<Vec<_>>())));
                }
                if nd.last_gc != ns.last_gc_version() {
                    self.findings.push(Finding::new(&["C07"], "delta.last_gc", format!("slot{slot}: delta for {id:?} announces watermark {} but the sender's copy has {}", nd.last_gc, ns.last_gc_version())));
                }
                if nd.max_version > ns.max_version() {
                    self.findings.push(Finding::new(&["C07", "C03"], "delta.max_version", format!("slot{slot}: delta for {id:?} max version {} above the sender's copy {}", nd.max_version, ns.max_version())));
                }
                if nd.max_version < ns.max_version() {
                    self.stats.inc("truncated_node_deltas");
                    self.nontrivial = true;
                }
                if nd.from == 0 && nd.last_gc > 0 {
                    self.stats.inc("node_deltas_from_scratch_with_watermark");
                }
            }
        }
        Some(wmsg)
    }

    // ------------------------------------------------------------------ steps

    pub fn write(&mut self, slot: usize, op: u8, key: &str, val: &str) {
        if !self.slots[slot].up {
            return;
        }
        let m = self.slots[slot].member;
        let cc = self.slots[slot].cc.as_mut().unwrap();
        let id = self.members[m].id.clone();
        let before: Option<(u64, u64, u8)> = cc.node_state(&id).and_then(|ns| ns.get_versioned(key).map(|v| (v.version, vh(&v.value), st_code(v))));
        let ns = cc.self_node_state();
        let mv0 = ns.max_version();
        let gc0 = ns.last_gc_version();
        let nkeys0 = ns.key_values_including_deleted().count();
        let r = catch(|| match op {
            0 => ns.set(key, val),
            1 => ns.set_with_ttl(key, val),
            2 => ns.delete(key),
            _ => ns.delete_after_ttl(key),
        });
        if let Err(p) = r {
            self.fail(&["C04", "C06", "C15"], "write.panic", format!("slot{slot}: local write op{op} key {key:?} panicked: {p}"));
            self.aborted = true;
            return;
        }
        let ns = self.slots[slot].cc.as_mut().unwrap().self_node_state();
        let mv1 = ns.max_version();
        let after: Option<(u64, u64, u8, usize)> = ns.get_versioned(key).map(|v| (v.version, vh(&v.value), st_code(v), v.value.len()));
        let nkeys1 = ns.key_values_including_deleted().count();
        let gc1 = ns.last_gc_version();
        let opname = ["set", "set_with_ttl", "delete", "delete_after_ttl"][op.min(3) as usize];
        if mv1 == mv0 {
            // not effective: nothing may have changed
            if after.map(|a| (a.0, a.1, a.2)) != before || nkeys0 != nkeys1 || gc0 != gc1 {
                // the owner now holds, under an old version, something it never wrote under that version (C03 too)
                self.fail(&["C04", "C03"], "write.noop_changed_state", format!("slot{slot}: {opname}({key:?}) did not take a version but changed the entry {before:?} -> {after:?}"));
            }
            // re-setting the current value / deleting an absent key are the only legitimate no-ops
            let legit = match op {
                0 => before.map(|b| b.1 == vh(val) && b.2 == 0).unwrap_or(false),
                1 => before.map(|b| b.1 == vh(val) && b.2 == 2).unwrap_or(false),
                _ => before.is_none(),
            };
            if !legit {
                self.fail(&["C04"], "write.effective_without_version", format!("slot{slot}: {opname}({key:?}) on {before:?} took no version"));
            }
            self.stats.inc("noop_writes");
        } else {
            if mv1 != mv0 + 1 {
                self.fail(&["C04"], "write.version_not_successor", format!("slot{slot}: {opname}({key:?}) moved max version {mv0} -> {mv1}"));
            }
            match after {
                Some((ver, h, st, len)) => {
                    if ver != mv1 {
                        self.fail(&["C04"], "write.entry_version", format!("slot{slot}: {opname}({key:?}) entry version {ver} but max version {mv1}"));
                    }
                    self.members[m].ledger.entry(key.to_string()).or_default().push(W { ver, vh: h, vlen: len, st });
                }
                None => self.fail(&["C04"], "write.entry_missing", format!("slot{slot}: {opname}({key:?}) took version {mv1} but the key has no entry")),
            }
            self.stats.inc("effective_writes");
        }
        self.note(format!("write slot{slot} {opname} {key:?} len{} -> mv {mv1}", val.len()));
        self.observe(slot, Ctx::Write);
    }

    pub fn random_write(&mut self, slot: usize) {
        let key = self.cfg.keys[self.rng.random_range(0..self.cfg.keys.len())].clone();
        let op = match self.rng.random_range(0..10) {
            0..=4 => 0u8,
            5 => 1,
            6..=8 => 2,
            _ => 3,
        };
        let val = if key == READY_KEY {
            ["true", "false", "true"][self.rng.random_range(0..3)].to_string()
        } else if self.cfg.big_values && self.rng.random_range(0..5) == 0 {
            let l = self.rng.random_range(8_000..30_000);
            let class = [4u8, 4, 1, 3][self.rng.random_range(0..4)];
            let mut r = rng_from(self.rng.random());
            payload(&mut r, class, l)
        } else if self.rng.random_range(0..8) == 0 {
            // the empty string is a value like any other (it is also what a tombstone stores)
            String::new()
        } else {
            format!("v{}", self.rng.random_range(0..3))
        };
        self.write(slot, op, &key, &val);
    }

    pub fn emit_syn(&mut self, a: usize) -> Option<Arc<Vec<u8>>> {
        let cc = self.slots[a].cc.as_ref()?;
        let msg = cc.verif_create_syn_message();
        let bytes = msg.serialize_to_vec();
        self.check_emitted(a, &msg, &bytes);
        Some(Arc::new(bytes))
    }

    pub fn syn(&mut self, a: usize, b: usize) {
        if !self.slots[a].up || a == b {
            return;
        }
        if let Some(bytes) = self.emit_syn(a) {
            self.seq += 1;
            self.bag.push(Dgram { from: a, to: b, bytes, seq: self.seq, is_dup: false, sent_step: self.step_no });
            self.note(format!("syn slot{a} -> slot{b}"));
        }
    }

    /// Processes `bytes` on `to`; returns the reply bytes (already checked as an emission).
    pub fn process(&mut self, to: usize, from: usize, bytes: &[u8]) -> Option<Arc<Vec<u8>>> {
        if !self.slots[to].up || self.aborted {
            return None;
        }
        let msg = match catch(|| ChitchatMessage::deserialize(&mut &bytes[..])) {
            Ok(Ok(m)) => m,
            Ok(Err(e)) => {
                self.fail(&["C08"], "wire.real_decoder_rejects_real_encoding", format!("slot{to}: cannot decode a datagram emitted by slot{from}: {e}"));
                return None;
            }
            Err(p) => {
                self.fail(&["C08", "C09", "C04"], "wire.decode_panic", format!("slot{to}: decoding a datagram emitted by slot{from} panicked: {p}"));
                return None;
            }
        };
        let wmsg = match codec::decode_msg(bytes) {
            Ok((m, _, _)) => m,
            Err(_) => return None, // already reported at emission
        };
        if self.history.len() >= 64 {
            self.history.remove(0);
        }
        self.history.push(Arc::new(bytes.to_vec()));
        let cb0 = self.slots[to].cb.load(Ordering::SeqCst);
        let cc = self.slots[to].cc.as_mut().unwrap();
        let reply = match catch(|| cc.verif_process_message(msg)) {
            Ok(r) => r,
            Err(p) => {
                self.fail(&["C04"], "process.panic", format!("slot{to}: processing a {} from honest slot{from} panicked: {p}", codec::msg_kind(&wmsg)));
                self.aborted = true;
                return None;
            }
        };
        let cb1 = self.slots[to].cb.load(Ordering::SeqCst);
        let kind = codec::msg_kind(&wmsg);
        self.stats.inc(&format!("delivered_{kind}"));
        self.deliver_hash = mix3(self.deliver_hash, (from * 16 + to) as u64, hash_str(kind));
        // cross-cluster SYN must be answered by BadCluster only and change nothing (C16)
        let foreign = self.members[self.slots[to].member].cluster != self.cfg.cluster_of[from];
        let old_for_c16 = if foreign { Some(self.slots[to].snap.clone()) } else { None };
        self.note(format!("deliver {kind} slot{from} -> slot{to} ({} bytes)", bytes.len()));
        self.observe(to, Ctx::Deliver { msg: wmsg.clone(), cb_delta: cb1 - cb0, from });
        let reply_bytes = reply.map(|r| {
            let b = r.serialize_to_vec();
            let w = self.check_emitted(to, &r, &b);
            (Arc::new(b), w)
        });
        if let Some(old) = old_for_c16 {
            if let WMsg::Syn { cluster_id, .. } = &wmsg {
                if cluster_id != &self.cfg.cluster_ids[self.members[self.slots[to].member].cluster] {
                    self.stats.inc("foreign_syns_processed");
                    self.nontrivial = true;
                    match &reply_bytes {
                        Some((_, Some(WMsg::BadCluster))) => {}
                        other => self.fail(&["C16"], "isolation.foreign_syn_answer", format!("slot{to}: a SYN for cluster {cluster_id:?} was answered with {:?}", other.as_ref().map(|o| o.1.as_ref().map(codec::msg_kind)))),
                    }
                    let new = &self.slots[to].snap;
                    let me = self.slots[to].member;
                    let same = old.live == new.live
                        && old.dead == new.dead
                        && old.copies.len() == new.copies.len()
                        && old.copies.iter().all(|(m, c0)| new.copies.get(m).map(|c1| c0.same_content(c1) && (c0.hb == c1.hb || *m == me)).unwrap_or(false));
                    if !same {
                        self.fail(&["C16"], "isolation.foreign_syn_changed_state", format!("slot{to}: processing a SYN of cluster {cluster_id:?} changed membership, data or recorded heartbeats"));
                    }
                }
            }
        }
        reply_bytes.map(|(b, _)| b)
    }

    pub fn deliver(&mut self, i: usize) {
        if i >= self.bag.len() {
            return;
        }
        let reordered = self.bag.iter().any(|d| d.to == self.bag[i].to && d.seq < self.bag[i].seq);
        let d = self.bag.remove(i);
        if reordered {
            self.stats.inc("reordered_deliveries");
            self.nontrivial = true;
        }
        if d.is_dup {
            self.stats.inc("duplicate_deliveries");
            if self.step_no.saturating_sub(d.sent_step) > 20 {
                self.stats.inc("late_duplicate_deliveries");
                self.nontrivial = true;
            }
        }
        let key = (d.from.min(d.to), d.from.max(d.to));
        if self.cut.contains(&key) {
            self.stats.inc("dropped_by_partition");
            return;
        }
        if !self.slots[d.to].up {
            self.stats.inc("dropped_target_down");
            return;
        }
        if let Some(reply) = self.process(d.to, d.from, &d.bytes) {
            self.seq += 1;
            self.bag.push(Dgram { from: d.to, to: d.from, bytes: reply, seq: self.seq, is_dup: false, sent_step: self.step_no });
        }
    }

    pub fn gc(&mut self, slot: usize) {
        if !self.slots[slot].up {
            return;
        }
        let cc = self.slots[slot].cc.as_mut().unwrap();
        if let Err(p) = catch(|| cc.verif_gc_keys_marked_for_deletion()) {
            self.fail(&["C06", "C04"], "gc.panic", format!("slot{slot}: gc panicked: {p}"));
            self.aborted = true;
            return;
        }
        self.note(format!("gc slot{slot}"));
        self.observe(slot, Ctx::Gc);
    }

    pub fn eval(&mut self, slot: usize) {
        if !self.slots[slot].up {
            return;
        }
        let cc = self.slots[slot].cc.as_mut().unwrap();
        if let Err(p) = catch(|| cc.verif_update_nodes_liveness()) {
            self.fail(&["C12", "C13"], "eval.panic", format!("slot{slot}: liveness evaluation panicked: {p}"));
            self.aborted = true;
            return;
        }
        self.note(format!("eval slot{slot}"));
        self.observe(slot, Ctx::Eval);
    }

    pub fn beat(&mut self, slot: usize) {
        if !self.slots[slot].up {
            return;
        }
        self.slots[slot].cc.as_mut().unwrap().verif_update_self_heartbeat();
        self.observe(slot, Ctx::Beat);
    }

    /// The members `slot` has scheduled for deletion at THIS virtual instant (the snapshot's set dates from the last
    /// monitored step of the slot; the clock may have moved since).
    pub fn sched_now(&self, slot: usize) -> BTreeSet<usize> {
        match self.slots[slot].cc.as_ref() {
            Some(cc) => cc.scheduled_for_deletion_nodes().filter_map(|id| self.by_id.get(id).copied()).collect(),
            None => BTreeSet::new(),
        }
    }

    pub async fn advance(&mut self, d: Duration) {
        tokio::time::advance(d).await;
        self.note(format!("advance {:?}", d));
    }

    /// Atomic loss-free SYN / SYN-ACK / ACK between two running nodes. Returns the parsed SYN-ACK and ACK.
    pub fn handshake(&mut self, a: usize, b: usize) -> (Option<WMsg>, Option<WMsg>) {
        if a == b || !self.slots[a].up || !self.slots[b].up {
            return (None, None);
        }
        self.note(format!("handshake slot{a} <-> slot{b}"));
        let Some(syn) = self.emit_syn(a) else { return (None, None) };
        let Some(synack) = self.process(b, a, &syn) else { return (None, None) };
        let w_synack = codec::decode_msg(&synack).ok().map(|x| x.0);
        let Some(ack) = self.process(a, b, &synack) else { return (w_synack, None) };
        let w_ack = codec::decode_msg(&ack).ok().map(|x| x.0);
        let _ = self.process(b, a, &ack);
        (w_synack, w_ack)
    }

    pub fn tick(&mut self, slot: usize) {
        if !self.slots[slot].up {
            return;
        }
        self.beat(slot);
        self.gc(slot);
        let mut peers: Vec<usize> = (0..self.slots.len()).filter(|p| *p != slot && self.slots[*p].started).collect();
        peers.shuffle(&mut self.rng);
        for p in peers.into_iter().take(3) {
            self.syn(slot, p);
        }
        self.eval(slot);
    }

    /// One random step of the hostile prefix.
    pub async fn random_step(&mut self) {
        self.step_no += 1;
        let n = self.slots.len();
        let ups = self.up_slots();
        if ups.is_empty() {
            let s = self.rng.random_range(0..n);
            if self.slots[s].started {
                self.restart(s)
            } else {
                self.start(s)
            }
            return;
        }
        let a = ups[self.rng.random_range(0..ups.len())];
        let mut b = self.rng.random_range(0..n);
        if b == a {
            b = (a + 1) % n;
        }
        let p = self.cfg.profile;
        let memb = matches!(p, Profile::Membership | Profile::Watch | Profile::Mixed) || (p == Profile::TwoClusters && self.cfg.dead_grace < Duration::from_secs(3600));
        let r = self.rng.random_range(0..1000);
        // cumulative weights (per mille) depend on the profile
        let two = p == Profile::TwoClusters;
        let w: [u32; 18] = if memb {
            // write syn deliver dup drop cut heal gc eval beat advance crash join/restart tick handshake one-way-syn
            // catch-up crafted-foreign-syn
            [120, 100, 185, 40, 40, 25, 25, 40, 60, 20, 110, 25, 35, 95, 40, 30, if two { 0 } else { 10 }, if two { 30 } else { 0 }]
        } else {
            [220, 170, 225, 50, 50, 15, 15, 70, 20, 10, 80, if self.cfg.crashes { 8 } else { 0 }, if self.cfg.crashes { 12 } else { 5 }, 20, 30, 5, 0, if two { 40 } else { 0 }]
        };
        let mut acc = 0;
        let mut kind = 14;
        for (i, wi) in w.iter().enumerate() {
            acc += wi;
            if r < acc {
                kind = i;
                break;
            }
        }
        match kind {
            0 => {
                if !self.cfg.no_data {
                    self.random_write(a)
                }
            }
            1 => {
                if self.slots[b].started {
                    self.syn(a, b)
                }
            }
            2 => {
                if !self.bag.is_empty() {
                    let i = self.rng.random_range(0..self.bag.len());
                    self.deliver(i);
                }
            }
            3 => {
                if !self.bag.is_empty() && self.bag.len() < 40 {
                    let i = self.rng.random_range(0..self.bag.len());
                    let mut d = self.bag[i].clone();
                    d.is_dup = true;
                    self.bag.push(d);
                    self.stats.inc("duplicated");
                }
            }
            4 => {
                if !self.bag.is_empty() {
                    let i = self.rng.random_range(0..self.bag.len());
                    self.bag.remove(i);
                    self.stats.inc("dropped");
                    self.nontrivial = true;
                }
            }
            5 => {
                self.cut.insert((a.min(b), a.max(b)));
                self.stats.inc("cuts");
                self.note(format!("cut slot{a} | slot{b}"));
            }
            6 => {
                if let Some(k) = self.cut.iter().next().cloned() {
                    self.cut.remove(&k);
                    self.note(format!("heal {k:?}"));
                }
            }
            7 => self.gc(a),
            8 => self.eval(a),
            9 => self.beat(a),
            10 => {
                let tg = self.cfg.tomb_grace;
                let dg = self.cfg.dead_grace;
                let eps = Duration::from_millis(1);
                let mut choices = vec![Duration::from_millis(200), Duration::from_secs(1), Duration::from_secs(1), Duration::from_secs(2), self.cfg.max_interval, self.cfg.max_interval + eps, tg / 2, tg - eps, tg, tg + eps];
                if dg < Duration::from_secs(3600) {
                    choices.extend([dg / 2 - eps, dg / 2, dg / 2 + eps, dg - eps, dg, dg / 4]);
                }
                let d = choices[self.rng.random_range(0..choices.len())];
                // keep the total virtual time of long-grace traces far below half the dead-node grace
                if dg >= Duration::from_secs(3600) && Instant::now() + d > self.t0 + Duration::from_secs(1200) {
                    return;
                }
                self.advance(d).await;
            }
            11 => {
                if self.cfg.crashes && ups.len() > 1 {
                    self.crash(a)
                }
            }
            12 => {
                let s = self.rng.random_range(0..n);
                if !self.slots[s].started {
                    self.start(s)
                } else if !self.slots[s].up && self.cfg.crashes {
                    self.restart(s)
                }
            }
            13 => self.tick(a),
            16 => self.catch_up_step(a, b),
            17 => self.crafted_foreign_syn(a, b),
            15 => {
                // the SYN gets through, the answer is lost: heartbeats flow, data does not
                if self.slots[b].up && !self.cut.contains(&(a.min(b), a.max(b))) {
                    if let Some(syn) = self.emit_syn(a) {
                        self.note(format!("one-way syn slot{a} -> slot{b} (reply lost)"));
                        let _ = self.process(b, a, &syn);
                        self.stats.inc("one_way_syns");
                    }
                }
            }
            _ => {
                if self.slots[b].up && !self.cut.contains(&(a.min(b), a.max(b))) {
                    // sometimes a full synchronisation: handshakes until neither side moves any more (states larger than
                    // one datagram need several), which parks copies exactly on the other side's frontier / watermark
                    let rounds = if self.rng.random_range(0..3) == 0 { 6 } else { 1 };
                    for _ in 0..rounds {
                        let before: Vec<(u64, u64)> = [a, b].iter().flat_map(|s| self.slots[*s].snap.copies.values().map(|c| (c.gc, c.mv)).collect::<Vec<_>>()).collect();
                        self.handshake(a, b);
                        let after: Vec<(u64, u64)> = [a, b].iter().flat_map(|s| self.slots[*s].snap.copies.values().map(|c| (c.gc, c.mv)).collect::<Vec<_>>()).collect();
                        if before == after || self.aborted {
                            break;
                        }
                    }
                    if rounds > 1 {
                        self.stats.inc("full_synchronisations");
                    }
                }
            }
        }
    }

    /// The application on node `n` fetches the state of some member from node `src` (that node's real copy) and
    /// feeds it through the external catch-up entry point; all monitors keep running (the supplied state is one a
    /// real node holds, so ledger-based monitors stay valid).
    pub fn catch_up_step(&mut self, n: usize, src: usize) {
        if n == src || !self.slots[n].up || !self.slots[src].up || self.cfg.cluster_of[n] != self.cfg.cluster_of[src] {
            return;
        }
        // a peer's snapshot also holds the requesting node's own entry: an application that replays the whole snapshot
        // hands it back too (one call in four here), and the owner's own state must not move because of it (C05)
        let own = self.slots[n].member;
        let feed_own = self.rng.random_range(0..4u32) == 0 && self.slots[src].snap.copies.contains_key(&own);
        let cands: Vec<usize> = self.slots[src].snap.copies.keys().cloned().filter(|m| (*m == own) == feed_own).collect();
        if cands.is_empty() {
            return;
        }
        let m = cands[self.rng.random_range(0..cands.len())];
        let id = self.members[m].id.clone();
        let (kvs, mv, gc) = {
            let Some(ns) = self.slots[src].cc.as_ref().unwrap().node_state(&id) else { return };
            // what the application fetched is stamped on receipt (the instants of the source node do not travel)
            let now = Instant::now();
            let restamp = |v: &chitchat::VersionedValue| chitchat::VersionedValue {
                value: v.value.clone(),
                version: v.version,
                status: match v.status {
                    chitchat::DeletionStatus::Set => chitchat::DeletionStatus::Set,
                    chitchat::DeletionStatus::Deleted(_) => chitchat::DeletionStatus::Deleted(now),
                    chitchat::DeletionStatus::DeleteAfterTtl(_) => chitchat::DeletionStatus::DeleteAfterTtl(now),
                },
            };
            (ns.key_values_including_deleted().map(|(k, v)| (k.to_string(), restamp(v))).collect::<Vec<_>>(), ns.max_version(), ns.last_gc_version())
        };
        let was_removed = self.slots[n].removed_hb.contains_key(&m) && !self.slots[n].snap.copies.contains_key(&m);
        let cc = self.slots[n].cc.as_mut().unwrap();
        if let Err(p) = catch(|| cc.reset_node_state_if_update(&id, kvs.into_iter(), mv, gc)) {
            self.fail(&["C18", "C04"], "catchup.panic", format!("slot{n}: catch-up of member{m} from slot{src}'s copy (gc {gc}, mv {mv}) panicked: {p}"));
            self.aborted = true;
            return;
        }
        self.stats.inc("catch_up_calls");
        if m == own {
            self.stats.inc("catch_up_calls_feeding_the_node_its_own_entry");
        }
        self.note(format!("catch-up slot{n} <- member{m} as held by slot{src} (gc {gc}, mv {mv})"));
        self.observe(n, Ctx::CatchUp { member: m, was_removed });
    }

    /// A SYN carrying the OTHER cluster's id whose digest names the receiver itself (with a much higher heartbeat),
    /// members the receiver knows (higher heartbeats) and a member nobody knows: it must be rejected and nothing may
    /// be learned from it (C16) — in particular the node's own heartbeat moves by its own activity only.
    pub fn crafted_foreign_syn(&mut self, to: usize, from_hint: usize) {
        if !self.slots[to].up {
            return;
        }
        let my_cluster = self.cfg.cluster_of[to];
        let Some(from) = (0..self.slots.len()).map(|i| (from_hint + i) % self.slots.len()).find(|s| self.cfg.cluster_of[*s] != my_cluster) else { return };
        let me = self.slots[to].member;
        let mut digest = vec![];
        for (m, c) in &self.slots[to].snap.copies {
            let bump = if *m == me { 100 } else { 50 };
            digest.push(codec::WDigestEntry { id: wid(&self.members[*m].id), heartbeat: c.hb + bump, last_gc: c.gc, max_version: c.mv + 3 });
        }
        let msg = WMsg::Syn { cluster_id: self.cfg.cluster_ids[self.cfg.cluster_of[from]].clone(), digest };
        let bytes = codec::encode_msg(&msg, &codec::BlockPlan::Raw(1000));
        let hb0 = self.slots[to].snap.copies.get(&me).map(|c| c.hb).unwrap_or(0);
        self.note(format!("crafted foreign syn -> slot{to} (claims own heartbeat {})", hb0 + 100));
        self.stats.inc("crafted_foreign_syns");
        let reply = self.process(to, from, &bytes);
        if reply.is_some() {
            // the answer goes back to the foreign slot like any other datagram
            self.seq += 1;
            self.bag.push(Dgram { from: to, to: from, bytes: reply.unwrap(), seq: self.seq, is_dup: false, sent_step: self.step_no });
        }
        let hb1 = self.slots[to].snap.copies.get(&me).map(|c| c.hb).unwrap_or(0);
        if hb1 != hb0 + 1 && hb1 >= hb0 + 100 {
            self.fail(&["C16", "C05"], "isolation.heartbeat_learned_from_foreign_syn", format!("slot{to}: a rejected foreign SYN claiming heartbeat {} for the node itself moved its heartbeat {hb0} -> {hb1}", hb0 + 100));
        }
    }

    pub fn replay_doc(&self, engine: &str, trace: u64) -> Value {
        let tail: Vec<&String> = self.log.iter().rev().take(60).collect::<Vec<_>>().into_iter().rev().collect();
        json!({ "engine": engine, "trace_seed": self.seed, "trace_index": trace, "config": self.cfg.to_json(), "steps_executed": self.step_no, "virtual_time_s": self.now_s(), "last_steps": tail })
    }

    pub fn trace_hash(&self) -> u64 {
        let mut v: Vec<u64> = self.state_hashes.iter().cloned().collect();
        v.sort();
        mix(self.deliver_hash, hash_of(&v))
    }
}

pub fn ctx_name(c: &Ctx) -> String {
    match c {
        Ctx::Write => "write".into(),
        Ctx::Deliver { msg, from, .. } => format!("deliver-{}-from-slot{from}", codec::msg_kind(msg)),
        Ctx::Gc => "gc".into(),
        Ctx::Eval => "eval".into(),
        Ctx::Beat => "beat".into(),
        Ctx::Start => "start".into(),
        Ctx::CatchUp { member, .. } => format!("catch-up-of-member{member}"),
        Ctx::Other => "other".into(),
    }
}
