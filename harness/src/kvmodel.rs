//! E3 — reference model of the local key-value map (C06), stepped in lock-step with the real
//! `NodeState` behind a real `Chitchat` under the virtual clock; exhaustive for short sequences,
//! random for long ones; replica side through real handshakes with the grace counted from receipt.

use std::collections::BTreeMap;
use std::time::Duration;

use chitchat::Serializable;
use rand::prelude::*;
use serde_json::{json, Value};
use tokio::time::Instant;

use crate::common::*;
use crate::craft::*;

#[derive(Clone, Debug, PartialEq)]
struct MEnt {
    value: String,
    version: u64,
    status: u8,
    marked_at: Option<Instant>,
}

#[derive(Default, Clone)]
struct Model {
    kv: BTreeMap<String, MEnt>,
    mv: u64,
    gc: u64,
}

#[derive(Clone, Debug, PartialEq)]
pub enum Op {
    Set(String, String),
    SetTtl(String, String),
    Delete(String),
    DeleteTtl(String),
    Advance(Duration),
    Gc,
}

impl Model {
    fn visible(&self, k: &str) -> Option<&str> {
        self.kv.get(k).filter(|e| e.status != 1).map(|e| e.value.as_str())
    }
    fn gc_pass(&mut self, now: Instant, grace: Duration) {
        let mut maxdel = self.gc;
        self.kv.retain(|_, e| match e.marked_at {
            Some(t) if e.status != 0 && now >= t + grace => {
                maxdel = maxdel.max(e.version);
                false
            }
            _ => true,
        });
        self.gc = maxdel;
    }
}

pub struct SeqOut {
    pub findings: Vec<Finding>,
    pub ops: u64,
    pub reads: u64,
    pub gc_collected: u64,
    pub tombstone_redeletes: u64,
    pub replica_syncs: u64,
}

const GRACE: Duration = Duration::from_secs(100);

/// Runs one operation sequence on a fresh real node and on the model; compares every read.
pub async fn run_sequence(ops: &[Op], keys: &[&str], prefixes: &[&str], with_replica: bool, out: &mut SeqOut) {
    let o = NodeOpts { tomb_grace: GRACE, ..Default::default() };
    let mut node = mk_node(simple_id("owner", 9600), &o);
    let mut replica = if with_replica { Some(mk_node(simple_id("replica", 9601), &o)) } else { None };
    let me = node.id.clone();
    let mut m = Model::default();
    let mut rm = Model::default(); // replica model: marked_at = instant of receipt
    let describe = |ops: &[Op], upto: usize| format!("{:?}", &ops[..=upto]);
    for (i, op) in ops.iter().enumerate() {
        out.ops += 1;
        let now = Instant::now();
        let mv_before = node.cc.self_node_state().max_version();
        let r = match op {
            Op::Set(k, v) => catch(|| node.cc.self_node_state().set(k, v)),
            Op::SetTtl(k, v) => catch(|| node.cc.self_node_state().set_with_ttl(k, v)),
            Op::Delete(k) => catch(|| node.cc.self_node_state().delete(k)),
            Op::DeleteTtl(k) => catch(|| node.cc.self_node_state().delete_after_ttl(k)),
            Op::Advance(d) => {
                tokio::time::advance(*d).await;
                Ok(())
            }
            Op::Gc => catch(|| node.cc.verif_gc_keys_marked_for_deletion()),
        };
        if let Err(p) = r {
            out.findings.push(Finding::new(&["C06"], "kv.panic", format!("{}: panicked: {p}", describe(ops, i))));
            return;
        }
        let mv_after = node.cc.self_node_state().max_version();
        let took_version = mv_after != mv_before;
        if mv_after != mv_before && mv_after != mv_before + 1 {
            out.findings.push(Finding::new(&["C06", "C04"], "kv.version_step", format!("{}: max version {mv_before} -> {mv_after}", describe(ops, i))));
        }
        // ---- the model
        match op {
            Op::Set(k, v) => {
                let same = m.kv.get(k).map(|e| e.status == 0 && &e.value == v).unwrap_or(false);
                if !same {
                    m.mv += 1;
                    m.kv.insert(k.clone(), MEnt { value: v.clone(), version: m.mv, status: 0, marked_at: None });
                }
            }
            Op::SetTtl(k, v) => {
                let same = m.kv.get(k).map(|e| e.status == 2 && &e.value == v).unwrap_or(false);
                if !same {
                    m.mv += 1;
                    m.kv.insert(k.clone(), MEnt { value: v.clone(), version: m.mv, status: 2, marked_at: Some(now) });
                }
            }
            Op::Delete(k) => match m.kv.get(k).map(|e| e.status) {
                None => {} // deleting an absent key is a no-op
                Some(1) => {
                    // O-2: deleting a key that is already a tombstone — the statement is silent: adopt what is observed
                    out.tombstone_redeletes += 1;
                    if took_version {
                        m.mv += 1;
                        m.kv.insert(k.clone(), MEnt { value: String::new(), version: m.mv, status: 1, marked_at: Some(now) });
                    }
                }
                Some(_) => {
                    m.mv += 1;
                    m.kv.insert(k.clone(), MEnt { value: String::new(), version: m.mv, status: 1, marked_at: Some(now) });
                }
            },
            Op::DeleteTtl(k) => match m.kv.get(k).cloned() {
                None => {}
                Some(e) if e.status == 1 => {
                    // O-2: delete-after-TTL on a tombstone: adopt the observed outcome (no-op, or re-marked)
                    out.tombstone_redeletes += 1;
                    if took_version {
                        m.mv += 1;
                        let real = node.cc.self_node_state().get_versioned(k).cloned();
                        let (st, val) = real.map(|v| (st_code(&v), v.value)).unwrap_or((2, e.value.clone()));
                        m.kv.insert(k.clone(), MEnt { value: val, version: m.mv, status: st, marked_at: Some(now) });
                    }
                }
                Some(e) => {
                    m.mv += 1;
                    m.kv.insert(k.clone(), MEnt { value: e.value, version: m.mv, status: 2, marked_at: Some(now) });
                }
            },
            Op::Advance(_) => {}
            Op::Gc => {
                let n0 = m.kv.len();
                m.gc_pass(now, GRACE);
                out.gc_collected += (n0 - m.kv.len()) as u64;
            }
        }
        // ---- compare every read
        let ns = node.cc.node_state(&me).unwrap();
        let mut bad: Vec<String> = vec![];
        if ns.max_version() != m.mv {
            bad.push(format!("max_version {} vs model {}", ns.max_version(), m.mv));
        }
        if ns.last_gc_version() != m.gc {
            bad.push(format!("last_gc_version {} vs model {}", ns.last_gc_version(), m.gc));
        }
        for k in keys {
            out.reads += 3;
            if ns.get(k) != m.visible(k) {
                bad.push(format!("get({k:?}) = {:?} vs model {:?}", ns.get(k), m.visible(k)));
            }
            if ns.contains_key(k) != m.visible(k).is_some() {
                bad.push(format!("contains_key({k:?}) = {}", ns.contains_key(k)));
            }
            let gv = ns.get_versioned(k).map(|v| (v.value.clone(), v.version, st_code(v)));
            let mvv = m.kv.get(*k).map(|e| (e.value.clone(), e.version, e.status));
            if gv != mvv {
                bad.push(format!("get_versioned({k:?}) = {gv:?} vs model {mvv:?}"));
            }
        }
        let kvs: Vec<(String, String)> = ns.key_values().map(|(k, v)| (k.to_string(), v.to_string())).collect();
        let mkvs: Vec<(String, String)> = m.kv.iter().filter(|(_, e)| e.status != 1).map(|(k, e)| (k.clone(), e.value.clone())).collect();
        out.reads += 2;
        if kvs != mkvs {
            bad.push(format!("key_values() = {kvs:?} vs model {mkvs:?}"));
        }
        if ns.num_key_values() != mkvs.len() {
            bad.push(format!("num_key_values() = {} vs model {}", ns.num_key_values(), mkvs.len()));
        }
        let all: Vec<(String, u64, u8)> = ns.key_values_including_deleted().map(|(k, v)| (k.to_string(), v.version, st_code(v))).collect();
        let mall: Vec<(String, u64, u8)> = m.kv.iter().map(|(k, e)| (k.clone(), e.version, e.status)).collect();
        if all != mall {
            bad.push(format!("key_values_including_deleted() = {all:?} vs model {mall:?}"));
        }
        for p in prefixes {
            out.reads += 1;
            let got: Vec<(String, String, u64)> = ns.iter_prefix(p).map(|(k, v)| (k.to_string(), v.value.clone(), v.version)).collect();
            let want: Vec<(String, String, u64)> = m.kv.iter().filter(|(k, e)| k.starts_with(p) && e.status != 1).map(|(k, e)| (k.clone(), e.value.clone(), e.version)).collect();
            if got != want {
                bad.push(format!("iter_prefix({p:?}) = {got:?} vs model {want:?}"));
            }
        }
        if !bad.is_empty() {
            out.findings.push(Finding::new(&["C06"], "kv.read_mismatch", format!("after {}: {}", describe(ops, i), bad.join("; "))));
            return;
        }
        // ---- replica side: sync through a real handshake after every owner write; GC at the same points
        if let Some(rep) = replica.as_mut() {
            if matches!(op, Op::Gc) {
                rep.cc.verif_gc_keys_marked_for_deletion();
                rm.gc_pass(now, GRACE);
            } else if took_version {
                let syn = rep.cc.verif_create_syn_message().serialize_to_vec();
                let r = catch(|| -> Result<(), String> {
                    let synack = feed(&mut node.cc, &syn)?.ok_or("no synack")?;
                    let ack = feed(&mut rep.cc, &synack.1)?.ok_or("no ack")?;
                    feed(&mut node.cc, &ack.1)?;
                    Ok(())
                });
                match r {
                    Ok(Ok(())) => {}
                    Ok(Err(e)) => {
                        out.findings.push(Finding::new(&["C06", "C08"], "kv.replica_handshake", format!("{}: {e}", describe(ops, i))));
                        return;
                    }
                    Err(p) => {
                        out.findings.push(Finding::new(&["C06", "C04"], "kv.replica_panic", format!("{}: {p}", describe(ops, i))));
                        return;
                    }
                }
                out.replica_syncs += 1;
                // the handshake bumped the owner's heartbeat only; the replica learns entries above its max version
                for (k, e) in &m.kv {
                    if e.version > rm.mv {
                        rm.kv.insert(k.clone(), MEnt { marked_at: if e.status != 0 { Some(now) } else { None }, ..e.clone() });
                    }
                }
                rm.mv = m.mv;
            }
            if let Some(rns) = rep.cc.node_state(&me) {
                let all: Vec<(String, u64, u8, String)> = rns.key_values_including_deleted().map(|(k, v)| (k.to_string(), v.version, st_code(v), v.value.clone())).collect();
                let mall: Vec<(String, u64, u8, String)> = rm.kv.iter().map(|(k, e)| (k.clone(), e.version, e.status, e.value.clone())).collect();
                if all != mall || rns.last_gc_version() != rm.gc || rns.max_version() != rm.mv {
                    out.findings.push(Finding::new(&["C06"], "kv.replica_mismatch", format!("after {}: replica holds {all:?} (gc {}, mv {}) vs model {mall:?} (gc {}, mv {})", describe(ops, i), rns.last_gc_version(), rns.max_version(), rm.gc, rm.mv)));
                    return;
                }
            }
        }
    }
}

fn alphabet(keys: &[&str], vals: &[&str]) -> Vec<Op> {
    let mut a = vec![];
    for k in keys {
        for v in vals {
            a.push(Op::Set(k.to_string(), v.to_string()));
            a.push(Op::SetTtl(k.to_string(), v.to_string()));
        }
        a.push(Op::Delete(k.to_string()));
        a.push(Op::DeleteTtl(k.to_string()));
    }
    a.push(Op::Advance(GRACE - Duration::from_nanos(1)));
    a.push(Op::Advance(GRACE));
    a.push(Op::Advance(Duration::from_nanos(1)));
    a.push(Op::Gc);
    a
}

pub fn check(args: &Args) -> Outcome {
    let mut ev = Evidence::new(args, "exploration");
    let deadline = Deadline::new(args.tier.pick(200, 3000));
    let keys = ["a", "ab", ""];
    let vals = ["x", "y"];
    let prefixes = ["", "a", "ab", "b"];
    let alpha = alphabet(&keys, &vals);
    let na = alpha.len() as u64;
    let no_replica = args.has("--no-replica") || args.has("--miri");
    let maxlen = if args.has("--miri") { 2 } else { args.tier.pick(4u32, 5u32) };
    // exhaustive part: all sequences of length exactly `maxlen` (their prefixes are the shorter sequences),
    // split by the first two ops into jobs
    let total: u64 = na.pow(maxlen);
    let chunk: u64 = na.pow(maxlen.saturating_sub(2).max(0));
    let jobs = total / chunk;
    let res = par_run(jobs, args.threads, |j| {
        if deadline.expired() {
            return None;
        }
        let rt = paused_rt();
        let mut out = SeqOut { findings: vec![], ops: 0, reads: 0, gc_collected: 0, tombstone_redeletes: 0, replica_syncs: 0 };
        let mut n = 0u64;
        for idx in j * chunk..(j + 1) * chunk {
            let mut x = idx;
            let mut seq = Vec::with_capacity(maxlen as usize);
            for _ in 0..maxlen {
                seq.push(alpha[(x % na) as usize].clone());
                x /= na;
            }
            seq.reverse();
            // replica side on a rotating subset (it costs three datagrams per write)
            let with_replica = !no_replica && idx % 7 == 0;
            rt.block_on(run_sequence(&seq, &keys, &prefixes, with_replica, &mut out));
            n += 1;
            if out.findings.len() > 3 {
                break;
            }
        }
        Some((out, n))
    });
    let complete = res.len() as u64 == jobs;
    let mut violations = vec![];
    let mut total_ops = 0;
    let mut add = |ev: &mut Evidence, out: SeqOut, violations: &mut Vec<(Finding, Value)>, what: &str| {
        ev.counters.add("operations", out.ops);
        ev.counters.add("reads_compared", out.reads);
        ev.counters.add("entries_collected_by_gc", out.gc_collected);
        ev.counters.add("deletes_of_tombstones_O2", out.tombstone_redeletes);
        ev.counters.add("replica_syncs", out.replica_syncs);
        for f in out.findings {
            if f.is_for("C06") {
                violations.push((f, json!({"engine": "E3", "part": what})));
            }
        }
    };
    for (_, (out, n)) in res {
        ev.evaluations += n;
        total_ops += out.ops;
        add(&mut ev, out, &mut violations, "exhaustive");
    }
    ev.counters.add("exhaustive_sequences", ev.evaluations);
    let nex = ev.evaluations;
    // random part: sequences up to length 40 over a larger alphabet
    let rkeys = ["a", "ab", "abc", "b", "", "é", "éa", "\u{10FFFF}"];
    let rvals = ["x", "y", ""];
    let rprefixes = ["", "a", "ab", "abc", "b", "é", "éa", "c", "\u{10FFFF}"];
    let ralpha = alphabet(&rkeys, &rvals);
    let nr = if args.has("--miri") { 20 } else { args.n(200_000, 5_000_000) };
    let seed = args.seed;
    let res = par_run(nr, args.threads, |i| {
        if deadline.expired() {
            return None;
        }
        let rt = paused_rt();
        let mut rng = rng_from(mix3(seed, i, 0xC06));
        let len = rng.random_range(1..=40);
        let mut seq: Vec<Op> = vec![];
        for _ in 0..len {
            let op = if rng.random_bool(0.1) {
                Op::Advance(match rng.random_range(0..5) {
                    0 => GRACE / 2,
                    1 => GRACE - Duration::from_nanos(1),
                    2 => GRACE,
                    3 => GRACE + Duration::from_nanos(1),
                    _ => Duration::from_secs(rng.random_range(0..250)),
                })
            } else {
                ralpha[rng.random_range(0..ralpha.len())].clone()
            };
            seq.push(op);
        }
        let mut out = SeqOut { findings: vec![], ops: 0, reads: 0, gc_collected: 0, tombstone_redeletes: 0, replica_syncs: 0 };
        rt.block_on(run_sequence(&seq, &rkeys, &rprefixes, !no_replica && i % 2 == 0, &mut out));
        Some((out, hash_of(&format!("{seq:?}")), if i < 3 { Some(format!("{seq:?}")) } else { None }))
    });
    let rdone = res.len() as u64;
    for (_, (out, h, sample)) in res {
        ev.evaluations += 1;
        ev.distinct.insert(h);
        total_ops += out.ops;
        if let Some(s) = sample {
            ev.samples.push(json!({"random_sequence": truncate(&s, 700)}));
        }
        add(&mut ev, out, &mut violations, "random");
    }
    // distinct: every exhaustive sequence is distinct by construction
    for i in 0..nex.min(2_000_000) {
        ev.distinct.insert(mix(i, 0xE3));
    }
    ev.samples.push(json!({"exhaustive_alphabet": alpha.iter().map(|o| format!("{o:?}")).collect::<Vec<_>>(), "length": maxlen}));
    ev.exhaustive = Some(complete);
    ev.extra.insert("exhaustive_scope".into(), json!(format!("all {} sequences of length {} over {} operations (every shorter sequence is a prefix)", total, maxlen, na)));
    if !complete {
        ev.inconclusive.push("wall-clock watchdog: exhaustive part not completed".into());
    }
    if rdone < nr {
        ev.inconclusive.push(format!("wall-clock watchdog: {} random sequences not generated", nr - rdone));
    }
    // replica side in whole clusters: every GC step of E1 traces is judged with the grace counted from the virtual instant
    // at which that (key, version, status) first appeared on the node (receipt, reset, catch-up)
    if !args.has("--miri") {
        let e1 = crate::e1::run_e1(args, "C06", &deadline);
        ev.evaluations += e1.traces;
        ev.counters.add("e1_traces", e1.traces);
        ev.counters.add("e1_gc_passes_that_collected", e1.stats.get("gc_passes_that_collected"));
        ev.counters.add("e1_entries_collected", e1.stats.get("entries_collected"));
        ev.distinct.extend(e1.distinct.iter());
        violations.extend(e1.findings);
    }
    ev.counters.add("total_operations", total_ops);
    ev.rule = "exhaustive: every sequence of length 4 (quick) / 5 (thorough) over {set, set_with_ttl} x {a, ab, \"\"} x {x, y}, {delete, delete_after_ttl} x keys, advance grace-1ns / grace / 1ns, gc (22 operations); after every operation every read (get, contains_key, get_versioned, key_values, key_values_including_deleted, num_key_values, iter_prefix for 4 prefixes, max_version, last_gc_version) is compared with the reference model; random: sequences up to length 40 over 8 keys (incl. multi-byte), 3 values; replica side through real handshakes on a subset; distinct = distinct sequences; exhaustive:true refers to the exhaustive part".into();
    ev.assumptions = vec!["delete / delete_after_ttl on a key that is already a tombstone: the statement is silent, the model adopts the observed outcome (observation O-2)".into()];
    let nothing = ev.counters.get("reads_compared") == 0;
    Outcome { evidence: ev, violations, nothing_observed: nothing }
}
