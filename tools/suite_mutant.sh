#!/bin/bash
# tools/suite_mutant.sh <worktree> <MUTANT_dir>: runs the existing test suite with ONLY the seeded change applied.
# Tests failing in the full run are re-run alone (up to 3 times): several suites running at once on this
# machine collide on fixed UDP ports and on real timers, which is not the mutant's doing.
set -u
WT="$1"; M="$2"; D="$WT/$M"
export RUSTUP_TOOLCHAIN=1.88.0 CARGO_NET_OFFLINE=true
cd "$WT" || exit 2
git checkout -q -- . ; git clean -fdq -- chitchat chitchat-test >/dev/null 2>&1
git apply "$D/patch.diff" || { echo "patch does not apply"; exit 3; }
# each suite runs in its own network namespace (own loopback): several suites at once no longer collide on the fixed
# UDP ports the tests bind; at most 4 at a time (real timers in the perf tests)
NS="unshare -n"; $NS true 2>/dev/null || NS=""
inns() { if [ -n "$NS" ]; then $NS sh -c 'ip link set lo up 2>/dev/null; exec "$@"' sh "$@"; else "$@"; fi; }
slot=0; exec 9>/tmp/suite.lock.0
if [ -n "$NS" ]; then
  while true; do
    for slot in 0 1 2 3; do exec 9>/tmp/suite.lock.$slot; flock -n 9 && break 2; done
    sleep 5
  done
else
  exec 9>/tmp/suite.lock; flock 9
fi
inns timeout 2400 cargo test --workspace --no-fail-fast --offline >"$D/eval_suite.log" 2>&1
passed=$(grep -E "^test result" "$D/eval_suite.log" | sed -E 's/.* ([0-9]+) passed.*/\1/' | paste -sd+ | bc)
fails=$(grep -E "^test .* FAILED" "$D/eval_suite.log" | sed -E 's/^test ([^ ]+) .*/\1/' | grep -v -E "test_bandwidth_100|test_delay_before_dead_detection_100" | sort -u)
still=""
for t in $fails; do
  ok=0
  for i in 1 2 3; do
    short=${t##*::}
    if inns timeout 600 cargo test --workspace --offline -- --exact "$t" >"$D/eval_retry.log" 2>&1 && grep -q "1 passed" "$D/eval_retry.log"; then ok=1; break; fi
    if inns timeout 600 cargo test --workspace --offline "$short" >"$D/eval_retry.log" 2>&1 && ! grep -q "FAILED" "$D/eval_retry.log"; then ok=1; break; fi
  done
  [ $ok -eq 0 ] && still="$still $t"
done
flock -u 9
git checkout -q -- . ; git clean -fdq -- chitchat chitchat-test >/dev/null 2>&1
res="$passed passed in the full run; failed then passed alone: [$(echo $fails | tr '\n' ' ')]; still failing: [${still# }]"
echo "$res"
python3 - "$D" "$res" "${still# }" <<'PY'
import json,sys,os
d,res,still=sys.argv[1:4]
p=d+"/eval.json"
e=json.load(open(p)) if os.path.exists(p) else {}
e["existing_suite_with_change"]=res
e["existing_suite_ok"]=(still.strip()=="")
json.dump(e,open(p,"w"),indent=1)
PY
