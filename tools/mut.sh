#!/bin/bash
# tools/mut.sh <file-under-/repo> <python-regex-old> <new> <prop> [<prop>...]
# Applies a one-off textual mutation to /repo's working tree, runs the quick checks named, and
# ALWAYS restores the tree (git checkout). For validating the monitors; never commits.
set -u
f="$1"; old="$2"; new="$3"; shift 3
cd /repo || exit 2
git diff --quiet || { echo "repo dirty, refusing"; exit 2; }
python3 - "$f" "$old" "$new" <<'PY'
import sys,re
f,old,new=sys.argv[1:4]
s=open(f).read()
n=len(re.findall(old,s))
if n!=1:
    print(f"MUTATION-PATTERN-MATCHES {n} times (need 1)"); sys.exit(3)
new=new.replace('\\n','\n')
open(f,'w').write(re.sub(old,lambda m:new,s,count=1))
PY
rc=$?
if [ $rc -ne 0 ]; then git checkout -- . ; exit $rc; fi
git --no-pager diff --stat | tail -1
for p in "$@"; do
  out=$(cd /verif && ./check "$p" --tier quick 2>&1)
  echo "$out" | grep -E "^VIOLATION|kind=|HARNESS-BUILD|INCONCLUSIVE prop" | head -4
  echo "$out" | grep -E "tier=quick" | head -1
done
git checkout -- .
# rebuild the shared binary from the restored tree, so that nobody picks up a binary built with the change
(cd /verif/harness && cargo build --release --offline >/dev/null 2>&1)
