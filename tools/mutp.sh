#!/bin/bash
# tools/mutp.sh <patch-file> <prop> [<prop>...]: applies a patch to /repo's working tree, runs the quick
# checks named, and ALWAYS restores the tree. Never commits.
set -u
patch="$1"; shift
cd /repo || exit 2
git diff --quiet || { echo "repo dirty, refusing"; exit 2; }
git apply "$patch" || { echo "patch does not apply"; exit 3; }
git --no-pager diff --stat | tail -1
for p in "$@"; do
  out=$(cd /verif && timeout 1200 ./check "$p" --tier quick 2>&1)
  echo "$out" | grep -E "^VIOLATION|kind=|HARNESS-BUILD|INCONCLUSIVE prop" | head -4
  echo "$out" | grep -E "tier=quick" | head -1
done
git checkout -- .
# rebuild the shared binary from the restored tree, so that nobody picks up a binary built with the change
(cd /verif/harness && cargo build --release --offline >/dev/null 2>&1)
