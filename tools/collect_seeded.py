#!/usr/bin/env python3
"""Copies every CONFIRMED seeded change from the sub-agents' scratch worktrees into /verif/seeded/<id>/.
Confirmed = (re-checked by tools/eval_mutant.sh + tools/suite_mutant.sh in the scratch worktree)
the demonstration passes on the clean tree, fails with the change, and the existing suite passes with the change.
Writes seeded/<id>/{patch.diff, demo.diff, meta.json} and seeded/INDEX.md."""
import glob, json, os, shutil, sys

rows = []
for d in sorted(glob.glob("/tmp/wt*-C*/MUTANT_*")):
    ev = os.path.join(d, "eval.json")
    if not os.path.exists(ev):
        continue
    e = json.load(open(ev))
    wt = os.path.basename(os.path.dirname(d))
    prop = wt.split("-")[1]
    import re
    rnd = re.match(r"wt(\d*)-", wt).group(1)  # wt-C01 -> round 1 (no prefix), wt2-C01 -> "2", ... wt10-C01 -> "10"
    mid = f"{prop}-{rnd}{os.path.basename(d).replace('MUTANT_', '')}"
    ok_demo = e.get("demo_on_clean_tree") == "passes" and e.get("demo_with_change") == "fails"
    ok_suite = e.get("existing_suite_ok")
    status = "confirmed" if (ok_demo and ok_suite) else ("suite-pending" if ok_demo and ok_suite is None else "rejected")
    rows.append((mid, prop, status, e))
    if status != "confirmed":
        continue
    out = f"/verif/seeded/{mid}"
    if os.path.exists(os.path.join(out, "meta.json")):
        continue  # collected before (its meta.json may already hold the final detection result)
    os.makedirs(out, exist_ok=True)
    for f in ("patch.diff", "demo.diff"):
        if os.path.exists(os.path.join(d, f)):
            shutil.copy(os.path.join(d, f), out)
    try:
        m = json.load(open(os.path.join(d, "meta.json")))
    except Exception as ex:  # the agent's meta may not be strict JSON
        m = {"raw_meta": open(os.path.join(d, "meta.json")).read()}
    meta = {
        "id": mid,
        "breaks_property": prop,
        "source": "independent sub-agent given only the property text and a scratch worktree of /repo",
        "summary": m.get("summary"),
        "needs_to_manifest": m.get("needs_to_manifest"),
        "demo_cmd": m.get("demo_cmd") or m.get("how_to_run_demo"),
        "what_i_ran": {
            "in": "the sub-agent's scratch worktree (never /repo)",
            "demo_on_clean_tree": e.get("demo_on_clean_tree"),
            "demo_with_change": e.get("demo_with_change"),
            "existing_suite_with_change": e.get("existing_suite_with_change"),
            "quick_checks_reporting_a_violation_when_first_evaluated": e.get("checks_reporting_violation"),
            "quick_checks_silent_when_first_evaluated": e.get("checks_silent"),
        },
        "final_detection": e.get("final_detection"),
    }
    json.dump(meta, open(os.path.join(out, "meta.json"), "w"), indent=1, ensure_ascii=False)

# the index is built from what is in /verif/seeded (scratch worktrees are removed once their changes are collected)
metas = []
for mp in sorted(glob.glob("/verif/seeded/*/meta.json")):
    metas.append(json.load(open(mp)))
with open("/verif/seeded/INDEX.md", "w") as f:
    f.write("# Seeded changes (from independent sub-agents), all confirmed in a scratch worktree\n\n")
    f.write("`first` = quick checks that reported a violation when the change was first evaluated (with the checks as they were then); `final` = result of the final checks with the change applied to /repo (see meta.json).\n\n")
    f.write("| id | property | first evaluation: caught by | final detection |\n|---|---|---|---|\n")
    for m in metas:
        first = " ".join(m["what_i_ran"].get("quick_checks_reporting_a_violation_when_first_evaluated") or []) or "—"
        fin = " ".join((m.get("final_detection") or {}).get("results", [])) or "(pending)"
        f.write(f"| {m['id']} | {m['breaks_property']} | {first} | {fin} |\n")
for r in rows:
    print(r[0], r[2], r[3].get("checks_reporting_violation"))
print(len(metas), "seeded changes in /verif/seeded")
