#!/bin/bash
# tools/final_detect.sh [<seeded-id> ...]
# For every confirmed seeded change under /verif/seeded/<id>/: apply it to /repo (git apply), run the quick check of
# the property it breaks plus every check that reported it when it was first evaluated, undo it straight afterwards
# (git checkout), and record the result in seeded/<id>/meta.json ("final_detection"). Never commits in /repo.
set -u
cd /verif || exit 2
ids="${*:-$(ls seeded | grep -E '^C[0-9]+' )}"
for id in $ids; do
  d="seeded/$id"; [ -f "$d/patch.diff" ] || continue
  git -C /repo diff --quiet || { echo "/repo dirty, stopping"; exit 2; }
  prop=$(python3 -c "import json;print(json.load(open('$d/meta.json'))['breaks_property'])")
  others=$(python3 -c "import json;m=json.load(open('$d/meta.json'));print(' '.join(x for x in (m['what_i_ran'].get('quick_checks_reporting_a_violation_when_first_evaluated') or []) if x!='$prop'))")
  [ -n "${FINAL_OWN_ONLY:-}" ] && others=""
  git -C /repo apply "$PWD/$d/patch.diff" || { echo "$id: patch does not apply"; continue; }
  res=""
  for p in $prop $others; do
    if [ -n "${HARNESS_DIR:-}" ]; then
      # a frozen copy of the harness (so that work on /verif/harness can go on meanwhile), rebuilt against the mutated /repo
      (cd "$HARNESS_DIR" && CARGO_NET_OFFLINE=true cargo build --release --offline >/dev/null 2>&1)
      out=$(cd "$VERIF_DIR" && timeout 1500 "$HARNESS_DIR/target/release/vharness" "$p" --tier quick --no-evidence 2>&1); rc=$?
    else
      out=$(timeout 1500 ./check "$p" --tier quick 2>&1); rc=$?
    fi
    kind=$(echo "$out" | grep -E "^  kind=" | head -1 | sed -E 's/^  kind=([^ ]+).*/\1/')
    if echo "$out" | grep -q "^VIOLATION"; then res="$res $p:VIOLATION($kind)";
    elif [ $rc -eq 134 ] || [ $rc -eq 139 ] || [ $rc -eq 132 ] || [ $rc -eq 135 ] || [ $rc -eq 136 ]; then res="$res $p:VIOLATION(process.aborted,signal=$((rc-128)))"  # ./check prints the VIOLATION line for these
    else res="$res $p:silent(rc=$rc)"; fi
  done
  git -C /repo checkout -- .
  echo "$id ->$res"
  python3 - "$d/meta.json" "$res" <<'PY'
import json,sys
p,res=sys.argv[1],sys.argv[2].split()
m=json.load(open(p)); m["final_detection"]={"how":"git -C /repo apply patch.diff; ./check <ID> --tier quick; git -C /repo checkout -- .","results":res}
json.dump(m,open(p,"w"),indent=1,ensure_ascii=False)
PY
done
# evidence files were rewritten by runs on a mutated tree: regenerate them on the unchanged tree afterwards
echo "NOTE: re-run the quick checks on the unchanged tree to regenerate evidence/*.json"
[ -z "${HARNESS_DIR:-}" ] && (cd /verif/harness && cargo build --release --offline >/dev/null 2>&1)
