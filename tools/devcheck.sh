#!/bin/bash
# tools/devcheck.sh <ID> [args...]: runs the CURRENT /verif/harness sources against a clean snapshot worktree of /repo
# (/tmp/repo-snap) without touching /repo or the shared binary (used while tools/final_detect.sh occupies /repo).
set -u
SNAP=/tmp/repo-snap; DEV=/tmp/devh
[ -d $SNAP ] || git -C /repo worktree add --detach $SNAP HEAD -q
mkdir -p $DEV /tmp/vd/evidence /tmp/vd/replays; cp /verif/known_findings.json /verif/properties.jsonl /tmp/vd/
rsync -a --delete --exclude target --exclude build.log /verif/harness/ $DEV/
sed -i "s#path = \"/repo/chitchat\"#path = \"$SNAP/chitchat\"#" $DEV/Cargo.toml
(cd $DEV && CARGO_NET_OFFLINE=true cargo build --release --offline 2>&1 | grep -E "^error" -A12 | head -40)
cd /tmp/vd && VERIF_DIR=/tmp/vd $DEV/target/release/vharness "$@" --no-evidence
