#!/usr/bin/env python3
"""Regenerates /verif/MANIFEST.json from the table below and validates it against the schema.
Run after adding or changing a check:  python3-vt tools/gen_manifest.py"""
import json, subprocess, sys

HOOK_COMMITS = ["397155c"]

# property -> (engine, category, technique, level text, level note, design ref)
CHECKS = {
 "C01": ("E1", "exploration", "runtime monitoring: bounded-progress monitor over simulated executions of the real state machine",
   "Liveness restated as bounded progress. Real Chitchat instances run a seeded hostile prefix (loss, duplication, reordering, partitions, MTU-truncating payloads, staggered GC, resets, crashes/restarts) and then a fair phase; a monitor asserts after every complete handshake that a deliverable member advanced on one side, and that all copies reach the target within an explicit round bound. Held = held on the traces observed.",
   "virtual time; bound R = 60 + 4*entries (+2*dead grace when short); cluster size <= 5; per-handshake obligation skipped (and counted) for pairs with asymmetric scheduling when payloads can exhaust the budget", "DESIGN.md §5 C01"),
 "C02": ("E1", "exploration", "runtime monitoring: ledger-based exactness invariant checked on every copy after every step",
   "Every owner write is recorded in a ground-truth ledger; after every step every changed copy on every node is compared with it (exact up to the frontier, tombstones may be absent below the watermark). Genuine defect KF-1 is recognised by the causing step (taint on member/key/version) and reported as KNOWN-FINDING; any other mismatch is a violation.",
   "values compared by 64-bit hash + length; KF-1 attribution relies on the taint rule documented in DESIGN §5", "DESIGN.md §5 C02"),
 "C03": ("E1", "exploration", "runtime monitoring: ledger-based integrity invariant on every copy after every step",
   "Every entry on every copy must be a ledger entry of its owner with exactly that key/value/version/status; no copy max version or recorded heartbeat above the owner's; no member that nobody ever was.",
   "values compared by 64-bit hash + length", "DESIGN.md §5 C03"),
 "C04": ("E1", "exploration", "runtime monitoring: before/after frontier and version monitors on every step, panic capture",
   "Version allocation of every local write, lexicographic (watermark, max version) monotonicity and per-key version monotonicity of every copy across every step, and absence of panics when processing honest messages, over seeded hostile traces; plus (when built) the small-scope (copy, delta) enumeration E2.",
   "copies removed after the dead-node grace end their lifetime", "DESIGN.md §5 C04"),
 "C05": ("E1", "exploration", "runtime monitoring: snapshot of the node's own namespace before/after every processed message",
   "The processing node's own key-values, versions, watermark and max version must be unchanged by every message and its heartbeat must rise by exactly one; no copy is ever ahead of its owner.",
   "restarted nodes use generation+1", "DESIGN.md §5 C05"),
 "C12": ("E1", "exploration", "runtime monitoring: membership shadow (dead-since, heartbeat at removal) vs. live/dead/scheduled sets and every emitted datagram",
   "Classification invariants after every step and evaluation, mention rule on every emitted digest/delta parsed with the independent decoder, removal exactly at the grace period, re-creation only by a strictly higher heartbeat, over membership-focused traces with clock advances at 1/2 and 1 x grace -/+ 1 ms.",
   "grace periods are whole even seconds so that grace/2 is exact; < 500 removed members", "DESIGN.md §5 C12"),
 "C13": ("E1", "exploration", "runtime monitoring: watch-channel value and has_changed checked after every liveness evaluation",
   "After every evaluation the channel value must list exactly the live members satisfying the predicate with their current max versions, and a change of the live set / a live member's max version must have produced a publication.",
   "predicate = READY == \"true\" in half of the traces", "DESIGN.md §5 C13"),
 "C16": ("E1", "exploration", "runtime monitoring: two-cluster simulation with full before/after snapshots around every foreign SYN",
   "Two clusters with confusable ids share one message fabric and addresses; every foreign SYN must be answered by BadCluster and change nothing but the receiver's own heartbeat; member sets stay disjoint after every step.",
   "clusters of 1-3 nodes", "DESIGN.md §5 C16"),
 "C20": ("E1", "exploration", "runtime monitoring: catch-up callback counter vs. resets observed from frontiers, per processed message",
   "For every processed message the number of callback invocations must be 1 if some copy's watermark strictly rose (a reset, including copies created by the same message) and 0 otherwise; plus (when built) every pair of the C14 scope.",
   "a reset is observed as a strict rise of a copy's watermark during process_message", "DESIGN.md §5 C20"),
}

# properties without a check yet: reason
NOT_YET = {}

ENGINES = [
 {"name": "E1", "path": "harness/src/sim.rs, harness/src/e1.rs", "serves_properties": ["C01","C02","C03","C04","C05","C12","C13","C16","C20"], "kind_free_text": "cluster simulator over real Chitchat instances (virtual clock, datagrams as bytes, independent decoder) with monitors after every step"},
]

def main():
    props = [json.loads(l)["id"] for l in open("/verif/properties.jsonl")]
    checks = []
    for p in props:
        if p not in CHECKS:
            continue
        eng, cat, tech, text, note, ref = CHECKS[p]
        checks.append({
            "property_id": p,
            "quick_cmd": f"./check {p} --tier quick",
            "thorough_cmd": f"./check {p} --tier thorough",
            "evidence_file": f"/verif/evidence/{p}.json",
            "replay_cmd_template": f"./check {p} --replay {{path}}",
            "engine": eng,
            "level_claimed": {"category": cat, "text": text, "design_ref": ref},
            "level_note": note,
            "technique": tech,
        })
    na = [{"property_id": p, "reason": NOT_YET.get(p, "check not built yet (work in progress)")} for p in props if p not in CHECKS]
    m = {
        "version": 1,
        "setup_cmd": "cd /verif/harness && CARGO_NET_OFFLINE=true cargo build --release --offline",
        "hooks": {
            "guard": "cargo feature `verif` of the chitchat crate (off by default)",
            "enable": "the harness crate depends on chitchat = { path = \"/repo/chitchat\", features = [\"verif\"] }; every ./check rebuilds it from /repo's working tree",
            "baseline_off_cmd": "cd /repo && RUSTUP_TOOLCHAIN=1.88.0 CARGO_NET_OFFLINE=true cargo test --workspace --no-fail-fast --offline",
            "source_commits": HOOK_COMMITS,
            "add_only": False,
        },
        "engines": ENGINES,
        "checks": checks,
        "notes": "All checks are runtime monitors over executions of the real crate (see DESIGN.md). hooks.add_only is false because one existing attribute line (#[cfg(not(test))] on state.rs random_generator) was widened to #[cfg(not(any(test, feature = \"verif\")))] so that the equal-staleness shuffle can be seeded by the harness; everything else in the hook commit is additive. Genuine defects repaired by `fix:` commits and the open known finding KF-1 are listed in known_findings.json.",
        "not_applicable": na,
    }
    json.dump(m, open("/verif/MANIFEST.json", "w"), indent=1)
    try:
        import jsonschema
        jsonschema.validate(m, json.load(open("/root/.vp/MANIFEST.schema.json")))
        print("MANIFEST.json valid;", len(checks), "checks,", len(na), "not applicable")
    except ImportError:
        print("jsonschema not available; wrote MANIFEST.json unvalidated")

if __name__ == "__main__":
    main()
