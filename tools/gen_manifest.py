#!/usr/bin/env python3
"""Regenerates /verif/MANIFEST.json from the table below and validates it against the schema.
Run after adding or changing a check:  python3-vt tools/gen_manifest.py"""
import json, subprocess, sys

HOOK_COMMITS = ["397155c"]

# property -> (engine, category, technique, level text, level note, design ref)
CHECKS = {
 "C01": ("E1", "exploration", "runtime monitoring: bounded-progress monitor over simulated executions of the real state machine",
   "Liveness restated as bounded progress. Real Chitchat instances run a seeded hostile prefix (loss, duplication, reordering, partitions, MTU-truncating payloads, staggered GC, resets, crashes/restarts) and then a fair phase; a monitor asserts after every complete handshake that a deliverable member advanced on one side, and that all copies reach the target within an explicit round bound. Held = held on the traces observed.",
   "virtual time; bound R = 60 + 4*entries (+2*dead grace when short); cluster size <= 5; per-handshake obligation skipped (and counted) for pairs with asymmetric scheduling when payloads can exhaust the budget", "DESIGN.md §5 C01"),
 "C02": ("E1", "exploration", "runtime monitoring: ledger-based exactness invariant checked on every copy after every step",
   "Every owner write is recorded in a ground-truth ledger; after every step every changed copy on every node is compared with it (exact up to the frontier, tombstones may be absent below the watermark). Genuine defect KF-1 is recognised by the causing step (taint on member/key/version) and reported as KNOWN-FINDING; any other mismatch is a violation.",
   "values compared by 64-bit hash + length; KF-1 attribution relies on the taint rule documented in DESIGN §5", "DESIGN.md §5 C02"),
 "C03": ("E1", "exploration", "runtime monitoring: ledger-based integrity invariant on every copy after every step",
   "Every entry on every copy must be a ledger entry of its owner with exactly that key/value/version/status; no copy max version or recorded heartbeat above the owner's; no member that nobody ever was.",
   "values compared by 64-bit hash + length", "DESIGN.md §5 C03"),
 "C04": ("E1", "exploration", "runtime monitoring: before/after frontier and version monitors on every step, panic capture",
   "Version allocation of every local write, lexicographic (watermark, max version) monotonicity and per-key version monotonicity of every copy across every step, and absence of panics when processing honest messages, over seeded hostile traces; plus the small-scope (copy, delta) enumeration E2 (every copy with watermark / max version in 0..6 x every delta with watermark, start in 0..6 and up to 3 ascending key-values or a max-version tail, honest or not) and the external catch-up entry point (E9 matrix and interleaved cases) judged for frontier monotonicity.",
   "copies removed after the dead-node grace end their lifetime", "DESIGN.md §5 C04"),
 "C05": ("E1", "exploration", "runtime monitoring: snapshot of the node's own namespace before/after every processed message",
   "The processing node's own key-values, versions, watermark and max version must be unchanged by every message and its heartbeat must rise by exactly one; no copy is ever ahead of its owner.",
   "restarted nodes use generation+1", "DESIGN.md §5 C05"),
 "C12": ("E1", "exploration", "runtime monitoring: membership shadow (dead-since, heartbeat at removal) vs. live/dead/scheduled sets and every emitted datagram",
   "Classification invariants after every step and evaluation, mention rule on every emitted digest/delta parsed with the independent decoder, removal exactly at the grace period, re-creation only by a strictly higher heartbeat, over membership-focused traces with clock advances at 1/2 and 1 x grace -/+ 1 ms.",
   "grace periods are whole even seconds so that grace/2 is exact; < 500 removed members", "DESIGN.md §5 C12"),
 "C13": ("E1", "exploration", "runtime monitoring: watch-channel value and has_changed checked after every liveness evaluation",
   "After every evaluation the channel value must list exactly the live members satisfying the predicate with their current max versions, and a change of the live set / a live member's max version (in either direction: a reset can lower it) must have produced a publication; one-way SYN steps keep members live while their data lags.",
   "predicate = READY == \"true\" in half of the traces", "DESIGN.md §5 C13"),
 "C16": ("E1", "exploration", "runtime monitoring: two-cluster simulation with full before/after snapshots around every foreign SYN",
   "Two clusters with confusable ids share one message fabric and addresses; every foreign SYN must be answered by BadCluster and change nothing but the receiver's own heartbeat; member sets stay disjoint after every step.",
   "clusters of 1-3 nodes", "DESIGN.md §5 C16"),
 "C20": ("E1", "exploration", "runtime monitoring: catch-up callback counter vs. resets observed from frontiers, per processed message",
   "For every processed message the number of callback invocations must be 1 if some copy's watermark strictly rose (a reset, including copies created by the same message) and 0 otherwise, where a reset is observed as a rebuild (watermark became that of a from-0 node delta and no old entry survived unless the delta carries it); plus every delivery of the C14 and C04 small scopes.",
   "a reset is observed as a strict rise of a copy's watermark during process_message", "DESIGN.md §5 C20"),
}

# properties without a check yet: reason
NOT_YET = {}

ENGINES = [
 {"name": "E1", "path": "harness/src/sim.rs, harness/src/e1.rs", "serves_properties": ["C01","C02","C03","C04","C05","C12","C13","C16","C20"], "kind_free_text": "cluster simulator over real Chitchat instances (virtual clock, datagrams as bytes, independent decoder) with monitors after every step"},
]


CHECKS.update({
 "C06": ("E3", "exploration", "runtime monitoring: reference model of the local key-value map stepped in lock-step with the real node, every read compared",
   "Every sequence of length 4 (quick) / 5 (thorough) over 22 operations (set / set_with_ttl / delete / delete_after_ttl on prefix-related and empty keys, clock advances to grace-1ns / grace, GC) is run on a real node under the virtual clock and every read is compared with a reference versioned map; random sequences to length 40 over a larger alphabet; replica side through real handshakes with the grace counted from receipt (also monitored in every GC step of E1).",
   "delete / delete_after_ttl on a key that is already a tombstone: the model adopts the observed outcome (observation O-2)", "DESIGN.md §5 C06"),
 "C07": ("E4", "exploration", "runtime monitoring: boundary-directed size sweeps with every reply measured and re-parsed by an independent decoder",
   "Real node states (0-40 members, 0-300 keys, values up to 65 KB, five payload entropy classes incl. near-incompressible UTF-8) answer crafted digests; every SYN-ACK / ACK and every budgeted delta (budgets 100..65,507) is measured, parsed by the independent decoder and compared with the sender's state; exact-fit sweeps move the last key byte by byte across the point where it stops fitting, so off-by-one errors in the budget or the length bound show up as 65,508-byte replies.",
   "own digest leaves >= 100 bytes; zstd is a black box", "DESIGN.md §5 C07"),
 "C08": ("E4", "exploration", "runtime monitoring: differential round-trip between the real codec and an independent implementation of the documented layout",
   "(a) messages emitted by real nodes driven into states covering the quantifier: announced length == bytes written, real re-decode == original with nothing left, independent decode == the node's own view, content == sender state; (b) independently encoded messages (all string length classes, raw / compressed / tiny / 65,535-byte / randomly cut blocks, digests to 2,000 entries) decoded by the real decoder and compared; (c) every datagram of every E1 trace goes through the same comparisons.",
   "strings <= 65,535 bytes, <= 65,535 digest entries", "DESIGN.md §5 C08"),
 "C09": ("E5", "exploration", "runtime monitoring: generative hostile input with panic capture and invariant monitors after every datagram",
   "Nodes taken from seeded E1 traces receive sequences of up to 20 datagrams: random bytes, mutated / replayed valid datagrams, structure-aware op streams in arbitrary order with extreme values; decode and processing run under panic capture, then frontier monotonicity and live/dead classification invariants are checked; thorough adds a valgrind memcheck pass over the same workload, a libFuzzer + ASan run (240 s, 8 forks, corpus seeded from real traces) and a Miri pass over hostile SYNs.",
   "a hostile sequence introduces at most 40 new short member ids (the property's digest-size assumption)", "DESIGN.md §5 C09"),
 "C10": ("E6", "exploration", "runtime monitoring: harness-side evidence log vs. live/dead verdicts under the virtual clock",
   "A real node receives crafted digests with chosen heartbeat values at chosen virtual instants; at every evaluation the completeness deadline phi x max(max_interval, initial_interval) since the last fresh value and the two-usable-observations rule are asserted; dyadic exact-boundary witnesses check the deadline with no margin (+1 ns).",
   "claims asserted with a 1e-9 relative margin outside the boundary", "DESIGN.md §5 C10"),
 "C11": ("E6", "exploration", "runtime monitoring: twin-node oracle (fresh values only) and accuracy claims from a shadow of the heartbeat gaps",
   "A twin node receives the same history with every non-fresh value removed: live/dead/scheduled sets and stored heartbeats must be identical after every evaluation; steady histories must stay live whenever the statement's premise holds (shadow gaps are a superset of the real window); exact-boundary witness at threshold 1; a third of the histories use a short dead-node grace (scheduling, removal, re-creation) and a quarter interleave external catch-up calls; E1 traces (relays, deltas, resets, restarts) additionally assert that no member is live before two strictly increasing values were delivered since its copy was created.",
   "heartbeats reach the node through SYN digests (E6) and through whole simulated clusters (E1)", "DESIGN.md §5 C11"),
 "C14": ("E2", "exploration", "runtime monitoring: exhaustive small-scope enumeration fed to real nodes, verdict on the observed handshake",
   "All 4,096 (sender watermark, sender max version, receiver watermark, receiver max version) combinations in 0..7 x entry layouts: both copies are installed in real nodes, the receiver's real SYN is answered by the real sender, the answer and every distinct truncation of it are processed by fresh copies of the receiver; start version, reset decision, strict advance, content after a wipe and callback count are asserted; plus the monitored handshakes of seeded E1 traces.",
   "copies installed through real message processing; exhaustive refers to the frontier cross product", "DESIGN.md §5 C14"),
 "C15": ("E7", "exploration", "runtime monitoring: recording callbacks vs. expected calls computed from the statement",
   "Every (prefix, key) pair over all 85 strings of length <= 3 over {a, b, 2-byte, 4-byte character}, alone and inside a companion set of 8 subscriptions with kept / dropped / forever handles, for all four write operations, locally and replicated through real handshakes incl. duplicate and stale deliveries and replicas built by a gossip reset; every order of subscribe / drop / forever / write events of length <= 5; random sets of up to 8 prefixes.",
   "callbacks registered through the public subscribe_event", "DESIGN.md §5 C15"),
 "C17": ("E8", "exploration", "runtime monitoring: the real selection function over an exhaustive subset-structure enumeration with scripted generators",
   "Every multiset of membership masks for universes of 0..6 addresses (74,613 structures) x scripted generators returning extreme and mid values x seeded draws; each result is checked against all clauses (at most 3 distinct targets from the right pool, picks inside their sets, forced seed when no live peer, forced dead pick when dead > live, no panic).",
   "sets passed unchanged to the real function through the facade", "DESIGN.md §5 C17"),
 "C18": ("E9", "exploration", "runtime monitoring: before/after oracle around the public catch-up entry point",
   "Existing copies of six kinds (absent, empty, mid-reset, behind, ahead, garbage collected through the real dead-node GC) x consistent and arbitrary supplied states; no panic, no lower frontier, unchanged-or-replaced content, no re-creation of removed members, no liveness change; also interleaved with E1 gossip steps using other nodes' real copies.",
   "absent -> empty copy at (0,0) after a refused call counts as unchanged", "DESIGN.md §5 C18"),
 "C19": ("E10", "fault_enumeration", "runtime monitoring: scripted transport faults under the paused clock + real UDP on loopback",
   "One real gossip server on a scripted Transport/Socket: all scripts of length <= 4 (quick) / 6 (thorough) over {send ok, send error, 2.5 s send, recv SYN, recv fatal error, recv panic} x every position of a shutdown request, user lock, gossip command or gossip-then-shutdown, plus user lock probed everywhere while delayed sends drain, plus random scripts to length 12; obligations in virtual time: rounds resume, liveness is evaluated, heartbeat rises, every SYN answered, termination reported, shutdown completes, user access returns within 1 ms; real UDP rounds with garbage / truncated / empty / 65,507-byte datagrams, a closed-port seed and a seed of the other address family (failed sends), every datagram received from the server validated.",
   "virtual-time deadlines; UDP part: missing answer without termination is inconclusive", "DESIGN.md §5 C19"),
})
ENGINES.extend([
 {"name": "E2", "path": "harness/src/pairs.rs", "serves_properties": ["C14", "C04", "C20"], "kind_free_text": "small-scope enumeration of (sender copy, receiver copy) and (copy, delta) pairs on real nodes"},
 {"name": "E3", "path": "harness/src/kvmodel.rs", "serves_properties": ["C06"], "kind_free_text": "reference model of the local KV map in lock-step with the real node"},
 {"name": "E4", "path": "harness/src/wire.rs, harness/src/codec.rs", "serves_properties": ["C07", "C08"], "kind_free_text": "MTU / round-trip sweeps against an independent codec"},
 {"name": "E5", "path": "harness/src/hostile.rs", "serves_properties": ["C09"], "kind_free_text": "hostile datagram generator with panic capture"},
 {"name": "E6", "path": "harness/src/fd.rs", "serves_properties": ["C10", "C11"], "kind_free_text": "failure-detector timing monitors with a twin node"},
 {"name": "E7", "path": "harness/src/listeners.rs", "serves_properties": ["C15"], "kind_free_text": "subscription oracle"},
 {"name": "E8", "path": "harness/src/select.rs", "serves_properties": ["C17"], "kind_free_text": "peer-selection enumeration"},
 {"name": "E9", "path": "harness/src/catchup.rs", "serves_properties": ["C18"], "kind_free_text": "catch-up oracle"},
 {"name": "E10", "path": "harness/src/server.rs", "serves_properties": ["C19"], "kind_free_text": "scripted transport + UDP loopback for the gossip server"},
])

# sentences appended to the level text (workloads added after the sub-agent rounds 5-6)
EXTRA = {
 "C09": " A quarter of the cases append a hostile member's whole life cycle: named once with an extreme heartbeat (u64::MAX, 2^63, 0 ...), evaluated dead, forgotten after the dead-node grace period, then named again with equal / lower / higher heartbeats in SYN and SYN-ACK digests. Two victims in three have twelve key-change listeners subscribed; hostile keys mix 1/2/3/4-byte characters.",
 "C18": " Half of the matrix cases end with the ordinary tombstone GC pass one grace period after the calls (the frontier must not move back, plain entries must stay).",
 "C01": " Fair phases alternate between all ordered pairs per round and real-server rounds (node by node: heartbeat, own tombstone GC, SYNs to 1-3 random peers, own evaluation); directed witness: a late joiner catching up over five datagrams with an owner whose last write is a collected deletion while every node collects before each of its rounds. Traces end only on findings for the property being decided.",
 "C08": " For a third of the messages the same thread first decodes damaged variants (cut by one byte, cut in the middle, end marker flipped): decoding is a function of the bytes alone. States of 1-3 MB of compressible key-values in one datagram; every datagram a real server emits over UDP loopback (also after failed sends) is one well-formed message; digests made of minimal entries only (empty ids) with nothing after them.",
 "C15": " Plus a two-thread scenario (a handle dropped by another thread while a write is being dispatched is never called again); half of the scenarios replicate only after every 2nd / 3rd write (several writes learnt at once); a churn stress (one thread drops 20,000 handles while another makes 60,000 writes: no call may be lost).",
 "C05": " One catch-up call in four hands a node its OWN entry as a peer holds it (the peer may have collected tombstones first): content and heartbeat of the owner must not move.",
 "C07": " Dense small-budget sweeps: every budget 100..700 over 1-6 members whose delta is a node header plus a lone max-version op or tiny entries, half of them with random ids / generations / 62-bit versions so that blocks are stored raw. Oversize-entry cases: an entry that can never travel (key + value > 65,507 bytes) in the middle of a history; every delta stops right before it. A fourth peer-digest mode announces 5-40 members the sender has never heard of (ids up to 400 bytes): they enter its own digest while it answers.",
 "C10": " A sixth of the histories use members that differ by address only, a fifth spread heartbeat values over the whole u64 range, a fifth configure the extra liveness predicate (READY writes delivered now and then): the verdicts must not depend on it; a third deliver relayed reset deltas (data, not life signs); the first namesake member shares the observer's node id.",
 "C11": " A sixth of the histories use members that differ by address only, a fifth spread heartbeat values over the whole u64 range (a lower value may be lower by more than 2^63). General live claim judged before a removal is accepted: with a sampled gap a after the last dead evaluation and elapsed / min(a, initial) within the threshold the member is live; a missed deadline is also a C11 finding when equal / lower values arrived during the silence.",
 "C14": " Every pair is also run under a 58-byte node id so that the smallest admissible budgets (100..130) cut the delta right after the member header (header-only reset deltas).",
 "C17": " Plus the caller: real gossip servers on a scripted transport under the paused clock whose peers heartbeat, fall silent, are scheduled for deletion and forgotten; the SYN destinations of every round are judged against the live / dead / known / seed sets read just before the round (own address and a seed given by name among the seeds, a seed name that does not resolve, runs longer than the 60 s name refresh, rounds in which every send fails, the seed itself as a dead member, another incarnation of the node itself (same address) among the members, bind address 0.0.0.0 with advertised address 127.0.0.1).",
 "C19": " Plus persistently slow transports (every send takes 1.2-4 s for 30-60 virtual seconds, the peer's heartbeats fed through the shared lock once per second): every round still ends with its liveness evaluation, the own heartbeat rises, user access never blocks, and a shutdown requested while the transport is still slow completes within about 100 rounds; bursts of up to 5,000 gossip() requests followed by shutdown().",
}
ENGINES_EXTRA = {"E10": ["C19", "C17"]}


def main():
    props = [json.loads(l)["id"] for l in open("/verif/properties.jsonl")]
    for e in ENGINES:
        if e["name"] in ENGINES_EXTRA:
            e["serves_properties"] = ENGINES_EXTRA[e["name"]]
    checks = []
    for p in props:
        if p not in CHECKS:
            continue
        eng, cat, tech, text, note, ref = CHECKS[p]
        checks.append({
            "property_id": p,
            "quick_cmd": f"./check {p} --tier quick",
            "thorough_cmd": f"./check {p} --tier thorough",
            "evidence_file": f"/verif/evidence/{p}.json",
            "replay_cmd_template": f"./check {p} --replay {{path}}",
            "engine": eng,
            "level_claimed": {"category": cat, "text": text + EXTRA.get(p, ""), "design_ref": ref},
            "level_note": note,
            "technique": tech,
        })
    na = [{"property_id": p, "reason": NOT_YET.get(p, "check not built yet (work in progress)")} for p in props if p not in CHECKS]
    m = {
        "version": 1,
        "setup_cmd": "cd /verif/harness && CARGO_NET_OFFLINE=true cargo build --release --offline",
        "hooks": {
            "guard": "cargo feature `verif` of the chitchat crate (off by default)",
            "enable": "the harness crate depends on chitchat = { path = \"/repo/chitchat\", features = [\"verif\"] }; every ./check rebuilds it from /repo's working tree",
            "baseline_off_cmd": "cd /repo && RUSTUP_TOOLCHAIN=1.88.0 CARGO_NET_OFFLINE=true cargo test --workspace --no-fail-fast --offline",
            "source_commits": HOOK_COMMITS,
            "add_only": False,
        },
        "engines": ENGINES,
        "checks": checks,
        "notes": "All checks are runtime monitors over executions of the real crate (see DESIGN.md). hooks.add_only is false because one existing attribute line (#[cfg(not(test))] on state.rs random_generator) was widened to #[cfg(not(any(test, feature = \"verif\")))] so that the equal-staleness shuffle can be seeded by the harness; everything else in the hook commit is additive. Genuine defects repaired by `fix:` commits and the open known finding KF-1 are listed in known_findings.json.",
        "not_applicable": na,
    }
    json.dump(m, open("/verif/MANIFEST.json", "w"), indent=1)
    try:
        import jsonschema
        jsonschema.validate(m, json.load(open("/root/.vp/MANIFEST.schema.json")))
        print("MANIFEST.json valid;", len(checks), "checks,", len(na), "not applicable")
    except ImportError:
        print("jsonschema not available; wrote MANIFEST.json unvalidated")

if __name__ == "__main__":
    main()
