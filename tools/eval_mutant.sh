#!/bin/bash
# tools/eval_mutant.sh <worktree> <MUTANT_dir_name> [--skip-suite] [checks...]
# Confirms a sub-agent's seeded change in its own scratch worktree (never in /repo):
#   1. demo test passes on the clean tree, 2. fails with the change, 3. the existing suite passes with the change,
#   4. runs the quick checks (a private copy of the harness built against the worktree's crate) and records
#      which of them report a violation.
# Writes <worktree>/<MUTANT>/eval.json. Leaves the worktree clean.
set -u
WT="$1"; M="$2"; shift 2
SKIP_SUITE=0
if [ "${1:-}" = "--skip-suite" ]; then SKIP_SUITE=1; shift; fi
CHECKS="${*:-C01 C02 C03 C04 C05 C06 C07 C08 C09 C10 C11 C12 C13 C14 C15 C16 C17 C18 C19 C20}"
export RUSTUP_TOOLCHAIN=1.88.0 CARGO_NET_OFFLINE=true
cd "$WT" || exit 2
D="$WT/$M"
[ -f "$D/patch.diff" ] || { echo "no patch in $D"; exit 2; }
clean() { git -C "$WT" checkout -q -- . ; git -C "$WT" clean -fdq -- chitchat chitchat-test >/dev/null 2>&1; }
clean
DEMO_CMD=$(python3 - "$D/meta.json" <<'PY'
import json,sys,re
m=json.load(open(sys.argv[1]))
c=m.get("demo_cmd") or m.get("how_to_run_demo") or ""
# keep only the cargo invocation
mm=re.search(r"(cargo test[^&;#(]*)", c)
print(mm.group(1).strip() if mm else "")
PY
)
echo "demo cmd: $DEMO_CMD"
res_demo_clean="skipped"; res_demo_mut="skipped"; res_suite="skipped"
if [ -n "$DEMO_CMD" ] && [ -f "$D/demo.diff" ]; then
  git apply "$D/demo.diff" || { echo "demo.diff does not apply"; clean; exit 3; }
  if timeout 1500 $DEMO_CMD >"$D/eval_demo_clean.log" 2>&1; then res_demo_clean="passes"; else res_demo_clean="FAILS"; fi
  grep -E "^test result|running [0-9]+ test" "$D/eval_demo_clean.log" | tail -3
  git apply "$D/patch.diff" || { echo "patch.diff does not apply on top of demo"; clean; exit 3; }
  if timeout 1500 $DEMO_CMD >"$D/eval_demo_mut.log" 2>&1; then res_demo_mut="PASSES"; else res_demo_mut="fails"; fi
  grep -E "^test result|panicked" "$D/eval_demo_mut.log" | tail -3
  clean
fi
git apply "$D/patch.diff" || { echo "patch.diff does not apply"; clean; exit 3; }
if [ $SKIP_SUITE -eq 0 ]; then
  timeout 2400 cargo test --workspace --no-fail-fast --offline >"$D/eval_suite.log" 2>&1
  failed=$(grep -E "^test .* FAILED" "$D/eval_suite.log" | grep -v -E "test_bandwidth_100|test_delay_before_dead_detection_100" | wc -l)
  passed=$(grep -E "^test result" "$D/eval_suite.log" | sed -E 's/.* ([0-9]+) passed.*/\1/' | paste -sd+ | bc)
  res_suite="$passed passed, $failed unexpected failures"
  echo "suite: $res_suite"
fi
# private harness copy built against this worktree
VH="$WT/vh"
mkdir -p "$VH" "$WT/vout/evidence" "$WT/vout/replays"
rsync -a --delete --exclude target --exclude build.log /verif/harness/ "$VH/"
sed -i "s#path = \"/repo/chitchat\"#path = \"$WT/chitchat\"#" "$VH/Cargo.toml"
cp /verif/known_findings.json /verif/properties.jsonl "$WT/vout/"
caught=""; missed=""; detail=""
if (cd "$VH" && cargo build --release --offline >"$D/eval_build.log" 2>&1); then
  for p in $CHECKS; do
    out=$(cd "$WT/vout" && VERIF_DIR="$WT/vout" timeout 900 "$VH/target/release/vharness" "$p" --tier quick 2>&1); rc=$?
    if echo "$out" | grep -q "^VIOLATION"; then
      caught="$caught $p"
      k=$(echo "$out" | grep -E "^  kind=" | head -1 | cut -c1-300)
      detail="$detail$p: $k\n"
    elif [ $rc -ne 0 ]; then missed="$missed $p(rc=$rc)"; else missed="$missed $p"; fi
  done
else
  echo "HARNESS BUILD FAILED against the mutant"; tail -20 "$D/eval_build.log"
fi
clean
python3 - "$D" "$res_demo_clean" "$res_demo_mut" "$res_suite" "$caught" "$missed" <<PY
import json,sys
d,dc,dm,su,ca,mi=sys.argv[1:7]
json.dump({"demo_on_clean_tree":dc,"demo_with_change":dm,"existing_suite_with_change":su,"checks_reporting_violation":ca.split(),"checks_silent":mi.split()},open(d+"/eval.json","w"),indent=1)
print(open(d+"/eval.json").read())
PY
printf "$detail"
