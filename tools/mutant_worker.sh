#!/bin/bash
# Background worker: evaluates every delivered seeded change (one at a time): checks first, then the suite.
while true; do
  did=0
  for d in /tmp/wt-C*/MUTANT_*; do
    [ -f "$d/patch.diff" ] && [ -f "$d/meta.json" ] || continue
    wt=$(dirname "$d"); m=$(basename "$d")
    if [ ! -f "$d/eval.started" ]; then
      touch "$d/eval.started"
      /verif/tools/eval_mutant.sh "$wt" "$m" --skip-suite > "$d/eval_checks.log" 2>&1
      did=1
    fi
    if [ -f "$d/eval.json" ] && [ ! -f "$d/suite.started" ]; then
      touch "$d/suite.started"
      /verif/tools/suite_mutant.sh "$wt" "$m" > "$d/eval_suite_run.log" 2>&1
      did=1
    fi
  done
  [ -f /tmp/mutant_worker.stop ] && exit 0
  [ $did -eq 0 ] && sleep 60
done
