#!/bin/bash
# tools/mutw.sh <worktree> <MUTANT_x> <ID> [args...]: runs the CURRENT /verif/harness sources against a sub-agent's
# seeded change inside its own scratch worktree (never /repo). Leaves the worktree clean.
set -u
WT="$1"; M="$2"; shift 2
cd "$WT" || exit 2
git checkout -q -- . ; git clean -fdq -- chitchat chitchat-test >/dev/null 2>&1
git apply "$WT/$M/patch.diff" || { echo "patch does not apply"; exit 3; }
VH="$WT/vh"; mkdir -p "$VH" "$WT/vout/evidence" "$WT/vout/replays"
rsync -a --delete --exclude target --exclude build.log /verif/harness/ "$VH/"
sed -i "s#path = \"/repo/chitchat\"#path = \"$WT/chitchat\"#" "$VH/Cargo.toml"
cp /verif/known_findings.json /verif/properties.jsonl "$WT/vout/"
(cd "$VH" && CARGO_NET_OFFLINE=true cargo build --release --offline 2>&1 | grep -E "^error" -A12 | head -40)
(cd "$WT/vout" && VERIF_DIR="$WT/vout" timeout 1500 "$VH/target/release/vharness" "$@" --tier quick --no-evidence 2>&1 | grep -E "^VIOL|kind=|tier=|INCONCL" | cut -c1-500 | head -4)
git checkout -q -- . ; git clean -fdq -- chitchat chitchat-test >/dev/null 2>&1
