#![no_main]
//! libFuzzer target (thorough tier of C09): any byte string is decoded by the real decoder; whatever decodes is
//! processed by a real node that already knows a few members, and the reply is serialized. A panic, an ASan
//! report or a timeout is a finding. The first input byte selects the victim's state.
use std::time::Duration;

use chitchat::{Chitchat, ChitchatConfig, ChitchatId, ChitchatMessage, Deserializable, FailureDetectorConfig, Serializable};
use libfuzzer_sys::fuzz_target;

fn node(variant: u8) -> Chitchat {
    let id = ChitchatId::new("victim".to_string(), 0, ([127, 0, 0, 1], 7000).into());
    let config = ChitchatConfig {
        chitchat_id: id.clone(),
        cluster_id: "c".into(),
        gossip_interval: Duration::from_secs(1),
        listen_addr: id.gossip_advertise_addr,
        seed_nodes: vec![],
        failure_detector_config: FailureDetectorConfig::default(),
        marked_for_deletion_grace_period: Duration::from_secs(3600),
        catchup_callback: None,
        extra_liveness_predicate: None,
    };
    let seeds = tokio::sync::watch::channel(Default::default()).1;
    let mut cc = Chitchat::with_chitchat_id_and_seeds(config, seeds, vec![]);
    if variant & 1 != 0 {
        cc.self_node_state().set("a", "1");
        cc.self_node_state().set("é", "2");
        cc.self_node_state().delete("a");
    }
    if variant & 2 != 0 {
        let other = ChitchatId::new("m".to_string(), 1, ([127, 0, 0, 1], 7001).into());
        let kv = vec![("k".to_string(), chitchat::VersionedValue { value: "v".into(), version: 3, status: chitchat::DeletionStatus::Set })];
        cc.reset_node_state_if_update(&other, kv.into_iter(), 5, 2);
    }
    cc
}

fuzz_target!(|data: &[u8]| {
    if data.is_empty() {
        return;
    }
    let mut cc = node(data[0]);
    // up to three datagrams, separated by the byte sequence FF 00 FF 00
    for part in data[1..].split(|_| false).take(1) {
        let mut chunks: Vec<&[u8]> = vec![];
        let mut rest = part;
        while let Some(p) = rest.windows(4).position(|w| w == [0xff, 0x00, 0xff, 0x00]) {
            chunks.push(&rest[..p]);
            rest = &rest[p + 4..];
            if chunks.len() == 2 {
                break;
            }
        }
        chunks.push(rest);
        for c in chunks {
            let mut cur = c;
            if let Ok(msg) = ChitchatMessage::deserialize(&mut cur) {
                if let Some(reply) = cc.verif_process_message(msg) {
                    let b = reply.serialize_to_vec();
                    assert_eq!(b.len(), reply.serialized_len());
                }
            }
        }
        cc.verif_update_nodes_liveness();
        let _ = cc.verif_create_syn_message().serialize_to_vec();
    }
});
